package mon

import (
	"fmt"
	"math/rand/v2"
	"os"
	"os/exec"
	"path/filepath"
	"sort"
	"strings"
	"sync"
	"time"

	"github.com/wizenheimer/comet"

	"verif/internal/ev"
)

func init() { register("C09", "exploration", runC09) }

func genStoreParams(rng *rand.Rand, vecKinds []string) storeParams {
	p := storeParams{Metric: allMetrics[rng.IntN(3)], Dim: pickDim(rng, []int{2, 3, 8}), CompactionThreshold: 1000}
	p.VecKind = vecKinds[rng.IntN(len(vecKinds))]
	p.Text = rng.IntN(3) > 0
	p.Meta = rng.IntN(3) > 0
	if p.VecKind == "" && !p.Text && !p.Meta {
		p.Text = true
	}
	p.HnswM = 16
	if p.VecKind == "ivf" || p.VecKind == "pq" || p.VecKind == "ivfpq" {
		p.Nlist = 1 + rng.IntN(4)
		if p.VecKind == "ivfpq" {
			p.Nlist = 1 + rng.IntN(2)
		}
		for i := 0; i < p.Nlist*10+20; i++ {
			v := make([]float32, p.Dim)
			for j := range v {
				v[j] = float32(rng.NormFloat64())
			}
			v[0] += 0.5
			p.ivfTrain = append(p.ivfTrain, v)
		}
	}
	// memtable size limit from "one document" (every add rotates) up to "everything fits"
	switch rng.IntN(4) {
	case 0:
		p.MemtableSizeLimit = 1
	case 1:
		p.MemtableSizeLimit = int64(300 + rng.IntN(600)) // a few documents
	case 2:
		p.MemtableSizeLimit = int64(2000 + rng.IntN(3000))
	default:
		p.MemtableSizeLimit = 100 << 20
	}
	p.FlushThreshold = 1 << 40 // no background flush here (that is C08)
	return p
}

func runC09(r *ev.Run) {
	r.Rule = "case = (vector template flat|hnsw|trained ivf|none, with/without text and metadata templates, metric, memtable size limit from one document up) x 1-4 sessions of (add* [Flush])* Close; " +
		"every Open uses freshly constructed templates; after every acknowledged Flush the directory listing and a sha256 of every segment file are recorded; after every Close the store is reopened (fresh templates) and " +
		"one all-matching query per modality (vector / text / metadata) must return every document added before a Flush/Close that returned nil; earlier segment files must be byte-identical and new segment ids larger than every id seen; " +
		"non-trivial = >=2 sessions, >=1 mid-session Flush, >=1 memtable rotation, documents in >=2 segments; distinct by (params, session shape) Since the seed waves: rotate / Train / injected I/O fault before mid-session flushes, an image of the directory right after every acknowledged Flush, refused removes of flushed documents, documents carrying only an unconfigured modality, PQ / IVFPQ templates, odd directory names and spellings."
	r.Assumptions = []string{"reopen happens in the same process with freshly constructed template objects (a new process is used in the thorough tier through cmd/storehelper)", "HNSW template: <=30 documents per memtable (exact regime per segment), IVF template trained before Open and searched at full probe"}
	n := r.Pick(60, 1500)
	r.CasesParallel("sessions", n, 8, func(ci int, rng *rand.Rand) {
		p := genStoreParams(rng, []string{"flat", "flat", "hnsw", "ivf", "", "pq", "ivfpq"})
		tmp, err := os.MkdirTemp("", "verif-c09-*")
		if err != nil {
			panic(err)
		}
		defer os.RemoveAll(tmp)
		// the store directory itself carries a name a user might well choose: glob / regexp metacharacters, blanks,
		// non-ASCII, a leading dash; every Open also spells it a little differently (trailing slash, "/.", "x/..")
		dir := filepath.Join(tmp, []string{"store", "tenant[7]", "a b", "dätä-目录", "-dash", "100%_{x}", "star*q?", "dots..bin.gz"}[rng.IntN(8)])
		if err := os.Mkdir(dir, 0o755); err != nil {
			panic(err)
		}
		spell := func() string {
			switch rng.IntN(4) {
			case 0:
				return dir + "/"
			case 1:
				return dir + "/."
			case 2:
				return filepath.Dir(dir) + "/./" + filepath.Base(dir)
			}
			return dir
		}
		var log []string
		dead := false
		rep := func(sig, what string) {
			if dead {
				return
			}
			dead = true
			l := log
			if len(l) > 60 {
				l = l[len(l)-60:]
			}
			r.ViolationAt("sessions", ci, sig, p.String()+": "+what, map[string]any{"params": p.String(), "log_tail": l})
		}
		ids := newIDGen(rng)
		ids.min = 1 << 24
		durable := map[uint32]bool{}
		ever := map[uint32]bool{}
		docVecs := map[uint32][]float32{}
		hashes := map[string]string{} // segment file -> sha256 at the time it was first seen after an acknowledged flush
		var maxSeen uint64
		nSessions := 1 + rng.IntN(4)
		if ci%12 == 7 {
			nSessions = 8 + rng.IntN(8) // many open / close cycles over one directory
			r.Count("cases:many-sessions", 1)
		}
		midFlushes, rotations, faults := 0, 0, 0
		// every third case runs with the real background flush worker (flush threshold of one byte: every add wakes it);
		// the durability oracle does not care who wrote a segment, only that an acknowledged Flush left nothing behind
		// compaction threshold: nothing in these histories asks for a compaction (no TriggerCompaction, the periodic check is
		// a day away), so any threshold is as good as "never" — unless something compacts on its own accord
		p.CompactionThreshold = []int{2, 3, 5, 1000}[rng.IntN(4)]
		bg := ci%3 == 2
		if bg {
			p.FlushThreshold = 1
			r.Count("cases:background-flush-worker-on", 1)
		}
		// quiesce: wait (bounded) until the worker has nothing left to write — only the writable memtable is queued
		quiesce := func(s *comet.PersistentHybridIndex) bool {
			for i := 0; i < 5000; i++ {
				if s.VerifMemtableCount() <= 1 {
					return true
				}
				time.Sleep(time.Millisecond)
			}
			return false
		}
		verifyDir := func(when string) {
			files, err := segmentFiles(dir)
			if err != nil {
				rep("store.dir-unreadable", err.Error())
				return
			}
			for name, h := range hashes {
				if cur, ok := files[name]; ok && cur != h {
					rep("store.segment-file-rewritten", fmt.Sprintf("%s: file %s of an earlier segment changed", when, name))
				}
			}
			newMax := maxSeen
			for name, h := range files {
				if _, known := hashes[name]; !known {
					id, ok := segmentIDOf(name)
					if ok && id <= maxSeen {
						rep("store.segment-id-reused", fmt.Sprintf("%s: new file %s uses segment id %d <= highest id seen before (%d)", when, name, id, maxSeen))
					}
					if ok && id > newMax {
						newMax = id
					}
					hashes[name] = h
				}
			}
			maxSeen = newMax
		}
		checkFound := func(s comet.HybridSearchIndex, when string) {
			a := searchAllModalities(s, p)
			if a.Err != nil {
				rep("store.search-error", when+": "+a.Err.Error())
				return
			}
			missing, foreign := a.check(durable, ever)
			if len(foreign) > 0 {
				rep("store.never-added-id-returned", fmt.Sprintf("%s: ids never added: %v", when, foreign))
			}
			if len(missing) > 0 {
				mods := make([]string, 0, len(missing))
				for m := range missing {
					mods = append(mods, m)
				}
				sort.Strings(mods)
				total := 0
				for _, m := range mods {
					total += len(missing[m])
				}
				rep("store.durable-document-lost."+when, fmt.Sprintf("%s: %d of %d durable documents not found (by modality: %v), e.g. %v", when, total/len(mods), len(durable), mods, head(missing[mods[0]], 5)))
			}
			r.Count("probes:all-modalities:"+when, 1)
			// IVF at its DEFAULT probe count: a document queried with its own vector lies in the cluster whose centroid is
			// nearest to the query, so it must come back (distance ~0) however the fresh template was trained
			if p.VecKind == "ivf" && !dead {
				n := 0
				for _, id := range sortedKeys(durable) {
					if n++; n > 12 {
						break
					}
					res, err := s.NewSearch().WithVector(cloneF32(docVecs[id])).WithK(bigK).Execute()
					if err != nil {
						rep("store.search-error", when+": "+err.Error())
						break
					}
					found := false
					for _, x := range res {
						if x.ID == id {
							found = true
						}
					}
					if !found {
						rep("store.durable-document-lost."+when+".ivf-self-query-default-probes", fmt.Sprintf("%s: durable document %d is not returned by a vector query with its own vector at the default probe count (%d results)", when, id, len(res)))
						break
					}
					r.Count("probes:ivf-self-query", 1)
				}
			}
		}
		for sess := 0; sess < nSessions && !dead; sess++ {
			s, err := p.open(spell())
			if err != nil {
				rep("store.open-error", fmt.Sprintf("session %d: %v", sess, err))
				return
			}
			log = append(log, fmt.Sprintf("open #%d", sess))
			if sess > 0 {
				checkFound(s, "after-reopen")
			}
			pending := map[uint32]bool{}
			nAdds := 1 + rng.IntN(25)
			if nSessions >= 8 {
				nAdds = 1 + rng.IntN(6)
			}
			if p.VecKind == "hnsw" && nAdds > 30 {
				nAdds = 30
			}
			for i := 0; i < nAdds && !dead; i++ {
				d := genStoreDoc(rng, p, ids.next(), fmt.Sprintf("s%d", sess))
				before := s.VerifMemtableCount()
				if err := s.AddWithID(d.ID, d.Vec, d.Text, d.Meta); err != nil {
					rep("store.add-error", fmt.Sprintf("AddWithID(%d): %v", d.ID, err))
					break
				}
				if s.VerifMemtableCount() > before {
					rotations++
				}
				ever[d.ID] = true
				pending[d.ID] = true
				docVecs[d.ID] = cloneF32(d.Vec)
				log = append(log, fmt.Sprintf("add %d", d.ID))
				// a document that carries ONLY what this store has no index for (text for a store without a text template,
				// ...): whether it is accepted or refused, it is searchable through nothing, and it must not damage the
				// segment it shares with real documents
				if (!p.Text || !p.Meta || p.VecKind == "") && rng.IntN(6) == 0 {
					gid := ids.next()
					var gv []float32
					gt, gm := "", map[string]any(nil)
					switch {
					case !p.Text:
						gt = "common ghost text"
					case !p.Meta:
						gm = map[string]any{"kind": "doc", "n": 1}
					default:
						gv = make([]float32, 3)
						gv[0] = 1
					}
					err := s.AddWithID(gid, gv, gt, gm)
					log = append(log, fmt.Sprintf("add %d carrying only an unconfigured modality -> %v", gid, err))
					if err == nil {
						ever[gid] = true
						r.Count("ops:add-carrying-only-an-unconfigured-modality:accepted", 1)
					} else {
						r.Count("ops:add-carrying-only-an-unconfigured-modality:refused", 1)
					}
				}
				// Remove of a document that already lives in a segment is refused (documented): it must change nothing,
				// in particular not what the next Flush / Close persists
				if len(durable) > 0 && rng.IntN(5) == 0 {
					for k := 0; k < 1+rng.IntN(3) && len(durable) > 0; k++ {
						dk := sortedKeys(durable)
						rid := dk[rng.IntN(len(dk))]
						err := s.Remove(rid)
						log = append(log, fmt.Sprintf("Remove(%d) of a flushed document -> %v", rid, err))
						if err == nil {
							delete(durable, rid) // accepted after all: then it is gone, and no longer owed
							delete(docVecs, rid)
							r.Count("ops:remove-of-flushed-document-accepted", 1)
						} else {
							r.Count("ops:remove-of-flushed-document-refused", 1)
						}
					}
				}
				if rng.IntN(8) == 0 {
					if bg && rng.IntN(2) == 0 {
						// let the worker finish whatever the adds woke it for, write nothing meanwhile, then Flush: what the
						// worker did NOT take (the writable memtable) is still owed by the Flush
						if quiesce(s) {
							r.Count("ops:flush-after-the-worker-went-idle", 1)
						}
					}
					fault := rng.IntN(6)
					if bg && fault == 1 {
						fault = 5 // no obstruction while the worker may be creating files of its own
					}
					switch fault {
					case 0:
						// the writable memtable is rotated out first (Train() and a rejected oversized Add do the same):
						// Flush must persist frozen memtables too
						s.VerifRotate()
						log = append(log, "rotate")
					case 2:
						// Train() through the store while documents are unflushed (flat / hnsw templates: a no-op for the
						// template; the store replaces its writable memtable, whose documents must still be persisted)
						if p.VecKind == "flat" || p.VecKind == "hnsw" {
							sample := make([][]float32, 4)
							for i := range sample {
								sample[i] = make([]float32, p.Dim)
								sample[i][i%p.Dim] = 1
							}
							err := s.Train(sample)
							log = append(log, fmt.Sprintf("Train -> %v", err))
							if err != nil {
								rep("store.train-error", err.Error())
							}
							r.Count("ops:train-with-unflushed-documents", 1)
						}
					case 1:
						// injected I/O fault: the next segment's <comp> file cannot be created. Flush must say so (or
						// succeed for real); once the fault is gone a Flush that returns nil must have persisted everything
						comps := []string{"hybrid"}
						if p.VecKind != "" {
							comps = append(comps, "vector")
						}
						if p.Text {
							comps = append(comps, "text")
						}
						if p.Meta {
							comps = append(comps, "metadata")
						}
						comp := comps[rng.IntN(len(comps))]
						obst := obstructNextSegments(dir, comp, 3)
						err := s.Flush()
						clearObstacles(obst)
						log = append(log, fmt.Sprintf("Flush with the next %s files obstructed -> %v", comp, err))
						if err != nil {
							faults++
							r.Count("io-faults:flush-failed-then-retried", 1)
							checkFound(s, "same-handle-after-failed-flush")
						} else {
							r.Count("io-faults:not-hit", 1)
						}
					}
					if err := s.Flush(); err != nil {
						rep("store.flush-error", err.Error())
						break
					}
					log = append(log, "Flush -> nil")
					for id := range pending {
						durable[id] = true
					}
					pending = map[uint32]bool{}
					midFlushes++
					if !bg {
						// (with the worker on, it and the explicit Flush may both be writing the same frozen memtable into two
						// segments — harmless duplicates — so a listing taken now can see a file half written; my first version
						// hashed such files and raised a false alarm on the unchanged tree. File identity is then checked
						// after every Close only, when the worker has stopped.)
						verifyDir("after-flush")
					}
					checkFound(s, "same-handle-after-flush")
					// the process may end right after the acknowledgement: the directory as it is NOW must reopen complete
					if img, err := readImage(dir); err == nil && !dead {
						idir, err := os.MkdirTemp("", "verif-c09img-*")
						if err != nil {
							panic(err)
						}
						if err := img.materialise(idir); err != nil {
							panic(err)
						}
						if rs, err := p.open(idir); err != nil {
							rep("store.open-error", fmt.Sprintf("image taken right after Flush returned nil: %v", err))
						} else {
							checkFound(rs, "image-right-after-flush-ack")
							rs.Close()
						}
						os.RemoveAll(idir)
					}
				}
			}
			if dead {
				s.Close()
				return
			}
			if err := s.Close(); err != nil {
				rep("store.close-error", err.Error())
				return
			}
			log = append(log, "Close -> nil")
			for id := range pending {
				durable[id] = true
			}
			verifyDir("after-close")
			if _, err := os.Stat(dir + "/LOCK"); err == nil {
				rep("store.lock-left-after-close", "LOCK file still present after Close")
			}
		}
		if dead {
			return
		}
		// final reopen with fresh templates; search twice (a segment load must not clobber anything)
		s, err := p.open(spell())
		if err != nil {
			rep("store.open-error", fmt.Sprintf("final reopen: %v", err))
			return
		}
		checkFound(s, "after-reopen")
		checkFound(s, "after-reopen-second-search")
		s.Close()
		if p.VecKind == "ivf" && rng.IntN(2) == 0 {
			// the application restarts with a template it has NOT trained (yet): what is on disk was written by trained
			// indexes and carries its own training — every durable document is still found, through every modality
			pu := p
			pu.ivfUntrained = true
			su, err := pu.open(spell())
			if err != nil {
				rep("store.open-error", fmt.Sprintf("final reopen with an untrained template: %v", err))
				return
			}
			checkFound(su, "after-reopen-with-untrained-template")
			su.Close()
			r.Count("reopens:with-untrained-ivf-template", 1)
		}
		// "in this or any later process": reopen in a NEW process (thorough tier; flat/none templates, which the helper knows)
		if helper := os.Getenv("VERIF_HELPER"); helper != "" && (r.Thorough() || ci%10 == 0) && (p.VecKind == "flat" || p.VecKind == "") && !dead {
			b2s := func(b bool) string {
				if b {
					return "1"
				}
				return "0"
			}
			out, err := exec.Command(helper, "ids", dir, b2s(p.VecKind == "flat"), b2s(p.Text), b2s(p.Meta), fmt.Sprint(p.Dim), string(p.Metric)).Output()
			if err != nil {
				r.Inconclusive("helper process failed to run")
			} else {
				for _, line := range strings.Split(strings.TrimSpace(string(out)), "\n") {
					f := strings.Fields(line)
					if len(f) >= 1 && (f[0] == "OPENFAIL" || f[0] == "SEARCHFAIL") {
						rep("store.new-process-reopen-fails", "a new process could not open/search the directory: "+line)
					}
					if len(f) >= 2 && f[0] == "IDS" {
						got := map[uint32]bool{}
						for _, x := range f[2:] {
							var id uint32
							fmt.Sscan(x, &id)
							got[id] = true
						}
						for id := range durable {
							if !got[id] {
								rep("store.durable-document-lost.in-new-process", fmt.Sprintf("a new process does not find durable document %d through the %s query", id, f[1]))
								break
							}
						}
					}
				}
				r.Count("probes:reopen-in-new-process", 1)
			}
		}
		segs := map[uint64]bool{}
		for name := range hashes {
			if id, ok := segmentIDOf(name); ok {
				segs[id] = true
			}
		}
		if r.WantSample() && ci%15 == 2 {
			l := log
			if len(l) > 14 {
				l = l[:14]
			}
			r.Sample(map[string]any{"params": p.String(), "sessions": nSessions, "durable_docs": len(durable), "segments": len(segs), "log_head": l})
		}
		r.Count("sessions", int64(nSessions))
		r.Count("segments-written", int64(len(segs)))
		r.Count("cases:vec="+p.VecKind, 1)
		_ = faults
		r.Eval(nSessions >= 2 && midFlushes >= 1 && rotations >= 1 && len(segs) >= 2, ev.Digest(p.String(), nSessions, midFlushes, len(durable), ci))
	})
	c09AckThenRestart(r)
	c09AddDuringFlush(r)
	// a store opened with an UNTRAINED template, trained through store.Train after vector-less documents were acknowledged
	// (C08's stream of that name), carried on through Close and a restart with a trained template
	runTrainLate(r, true)
}

// c09AckThenRestart: "after Flush() has returned nil" includes the case where the background flush worker is in the middle
// of writing when Flush is called; the process may end right after the acknowledgement (same engine as C10's ack-then-crash).
func c09AckThenRestart(r *ev.Run) {
	ctl := newHookCtl()
	ctl.install()
	defer ctl.uninstall()
	c10AckThenCrash(r, ctl)
}

// c09AddDuringFlush: an explicit Flush is held at a point inside it (after it has rotated the writable memtable out); an
// AddWithID runs beside it and is acknowledged; the Flush returns. Nothing else is written. Then either Close, or a second
// Flush followed by "the process ends here" (an image of the directory): both acknowledged everything added before them,
// the late document included.
func c09AddDuringFlush(r *ev.Run) {
	ctl := newHookCtl()
	ctl.install()
	defer ctl.uninstall()
	points := []string{"flush.begin", "crash:flush.create.hybrid", "crash:flush.written", "crash:flush.added", "flush.registered", "flush.dropped"}
	r.Cases("add-during-flush", r.Pick(2, 12)*len(points), func(ci int, rng *rand.Rand) {
		point := points[ci%len(points)]
		secondFlush := (ci/len(points))%2 == 1
		p := storeParams{VecKind: "flat", Text: true, Meta: true, Dim: 3, Metric: comet.Euclidean, CompactionThreshold: 1000,
			MemtableSizeLimit: []int64{1 << 20, 600}[rng.IntN(2)], FlushThreshold: 1 << 40}
		dir, err := os.MkdirTemp("", "verif-c09adf-*")
		if err != nil {
			panic(err)
		}
		defer os.RemoveAll(dir)
		var log []string
		rep := func(sig, what string) {
			r.ViolationAt("add-during-flush", ci, sig, fmt.Sprintf("point=%s second-flush=%v: %s", point, secondFlush, what), map[string]any{"log": log})
		}
		s, err := p.open(dir)
		if err != nil {
			rep("store.open-error", err.Error())
			return
		}
		closed := false
		defer func() {
			if !closed {
				s.Close()
			}
		}()
		ids := newIDGen(rng)
		ids.min = 1 << 24
		acked, ever := map[uint32]bool{}, map[uint32]bool{}
		var mu sync.Mutex
		add := func(tag string) {
			d := genStoreDoc(rng, p, ids.next(), "a")
			mu.Lock()
			ever[d.ID] = true
			mu.Unlock()
			err := s.AddWithID(d.ID, d.Vec, d.Text, d.Meta)
			mu.Lock()
			log = append(log, fmt.Sprintf("%s: add %d -> %v", tag, d.ID, err))
			if err == nil {
				acked[d.ID] = true
			}
			mu.Unlock()
		}
		for i := 0; i < 1+rng.IntN(4); i++ {
			add("before")
		}
		var besideDone chan struct{}
		ctl.resetTrace(false)
		ctl.setTarget(point, 1, func([]any) {
			_, besideDone = runBeside(func() { add("beside the held Flush") }, 150*time.Millisecond)
		})
		ferr := s.Flush()
		fired := ctl.fired()
		ctl.clearTarget()
		log = append(log, fmt.Sprintf("Flush -> %v", ferr))
		if ferr != nil {
			rep("store.flush-error", ferr.Error())
			return
		}
		if !fired {
			r.Inconclusive("flush point not reached: " + point)
			return
		}
		select {
		case <-besideDone:
		case <-time.After(60 * time.Second):
			rep("store.add-hangs", "an AddWithID started beside a held Flush did not return within 60 s after the Flush had returned")
			return
		}
		check := func(h comet.HybridSearchIndex, when string) {
			a := searchAllModalities(h, p)
			if a.Err != nil {
				rep("store.search-error", when+": "+a.Err.Error())
				return
			}
			mu.Lock()
			missing, foreign := a.check(acked, ever)
			mu.Unlock()
			if len(foreign) > 0 {
				rep("store.never-added-id-returned", fmt.Sprintf("%s: %v", when, foreign))
			}
			if len(missing) > 0 {
				rep("store.durable-document-lost."+when, fmt.Sprintf("acknowledged before the %s, missing afterwards: %v", map[bool]string{true: "second Flush", false: "Close"}[secondFlush], missing))
			}
		}
		if secondFlush {
			if err := s.Flush(); err != nil {
				rep("store.flush-error", "second Flush: "+err.Error())
				return
			}
			log = append(log, "second Flush -> nil")
			img, err := readImage(dir)
			if err != nil {
				panic(err)
			}
			idir, err := os.MkdirTemp("", "verif-c09adfimg-*")
			if err != nil {
				panic(err)
			}
			defer os.RemoveAll(idir)
			if err := img.materialise(idir); err != nil {
				panic(err)
			}
			os.Remove(filepath.Join(idir, "LOCK"))
			rs, err := p.open(idir)
			if err != nil {
				rep("store.open-error", "image taken right after the second Flush returned nil: "+err.Error())
				return
			}
			check(rs, "image-right-after-flush-ack")
			rs.Close()
		} else {
			if err := s.Close(); err != nil {
				rep("store.close-error", err.Error())
				return
			}
			closed = true
			log = append(log, "Close -> nil")
			rs, err := p.open(dir)
			if err != nil {
				rep("store.open-error", "reopen after Close: "+err.Error())
				return
			}
			check(rs, "after-reopen")
			rs.Close()
		}
		r.Count("add-during-flush:"+point, 1)
		r.Eval(true, ev.Digest("adf", point, secondFlush, ci))
	})
}

func head(l []uint32, n int) []uint32 {
	if len(l) > n {
		return l[:n]
	}
	return l
}
