package mon

import (
	"fmt"
	"math"
	"math/rand/v2"
	"sort"

	"github.com/wizenheimer/comet"

	"verif/internal/ev"
)

func init() { register("C14", "exploration", runC14) }

// nearestCodewordOK: is code c a nearest codeword of sub (float32 accumulation as an encoder would do;
// bit-equal and last-ulp ties accepted)?
func nearestCodewordOK(sub []float32, codebook []float32, dsub, ksub int, c int) (bool, int, float32, float32) {
	dist := func(k int) float32 {
		var d float32
		cw := codebook[k*dsub : (k+1)*dsub]
		for i := range sub {
			x := sub[i] - cw[i]
			d += x * x
		}
		return d
	}
	if c < 0 || c >= ksub {
		return false, -1, 0, 0
	}
	dc := dist(c)
	best, bd := c, dc
	for k := 0; k < ksub; k++ {
		if d := dist(k); d < bd {
			best, bd = k, d
		}
	}
	if float64(dc) <= float64(bd)*(1+4*eps32)+1e-38 {
		return true, best, dc, bd
	}
	return false, best, dc, bd
}

func runC14(r *ev.Run) {
	r.Rule = "case = (pq|ivfpq, metric, M in 1..8, dim divisible by M, every nbits 1..16 the constructor accepts, nlist 1..16, training set from the minimum accepted size up, Add/Remove/Flush history incl. crafted vectors equal to a reconstruction); " +
		"after every few ops: (a) every stored code is a nearest codeword per subspace (IVFPQ: of the residual to the nearest centroid) read via the accessor, (b) complete listing == exact top-k by float64 ADC over the live vectors of the probed clusters, " +
		"(c) |score - true Euclidean distance| <= that vector's quantisation error, (d) restricted probes exact vs the listing; non-trivial = trained with >=2 codewords, history has removal+flush, >=1 non-empty listing; distinct by (params, history digest)"
	r.Assumptions = []string{"codebooks/centroids/codes are read from the index through read-only verif accessors; the oracle recomputes everything else in float64",
		"nearest-codeword decided with float32 accumulation like an encoder, ties within 4 ulp accepted"}
	n := r.Pick(480, 6000)
	quickBits := []int{1, 2, 4, 8, 9, 10, 16, 3, 5, 6, 7, 12}
	r.CasesParallel("history", n, 16, func(ci int, rng *rand.Rand) {
		kind := []string{"pq", "ivfpq"}[ci%2]
		metric := allMetrics[rng.IntN(3)]
		M := 1 + rng.IntN(8)
		dsub := 1 + rng.IntN(3)
		dim := M * dsub
		var nbits int
		if r.Thorough() {
			nbits = 1 + (ci/2)%16
		} else {
			nbits = quickBits[(ci/2)%len(quickBits)]
		}
		nlist := 0
		s := &vecSUT{kind: kind, dim: dim, metric: metric, pqM: M, nbits: nbits}
		s.dist, _ = comet.NewDistance(metric)
		var err error
		if kind == "pq" {
			s.idx, err = comet.NewPQIndex(dim, metric, M, nbits)
		} else {
			nlist = 1 + rng.IntN(4)
			if rng.IntN(4) == 0 {
				nlist = 1 + rng.IntN(16)
			}
			s.nlist = nlist
			s.idx, err = comet.NewIVFPQIndex(dim, metric, nlist, M, nbits)
		}
		s.params = fmt.Sprintf("dim=%d M=%d nbits=%d nlist=%d", dim, M, nbits, nlist)
		if err != nil {
			r.Count(fmt.Sprintf("constructor-rejects:nbits=%d", nbits), 1)
			return
		}
		r.Count(fmt.Sprintf("constructor-accepts:nbits=%d", nbits), 1)
		// Training cost grows with 4^nbits (Ksub training vectors x Ksub codewords x 20 iterations): code sizes
		// beyond the cap are accepted-but-not-exercised and make the run inconclusive for them (counted).
		maxBits := 10
		if r.Thorough() {
			maxBits = 12
		}
		if nbits > maxBits {
			r.Inconclusive(fmt.Sprintf("nbits=%d accepted by the constructor but too expensive to train here", nbits))
			return
		}
		if nbits >= 9 {
			M, dsub = 1+rng.IntN(2), 1
			dim = M * dsub
			s.dim, s.pqM = dim, M
			if kind == "pq" {
				s.idx, err = comet.NewPQIndex(dim, metric, M, nbits)
			} else {
				s.idx, err = comet.NewIVFPQIndex(dim, metric, nlist, M, nbits)
			}
			if err != nil {
				return
			}
			s.params = fmt.Sprintf("dim=%d M=%d nbits=%d nlist=%d", dim, M, nbits, nlist)
		}
		vg := newVecGen(rng, dim)
		vg.mode = 0
		m := newVecModel(metric, dim)
		ids := newIDGen(rng)
		var hist []histOp
		rep := func(sig, what string) {
			h := hist
			if len(h) > 30 {
				h = h[len(h)-30:]
			}
			r.ViolationAt("history", ci, sig, fmt.Sprintf("%s %s %s: %s", kind, metric, s.params, what),
				map[string]any{"kind": kind, "metric": metric, "params": s.params, "history_tail": h})
		}
		// training set: find the minimum accepted size by trying upward from below it
		ksub := 1 << nbits
		minTrain := ksub
		if kind == "ivfpq" {
			minTrain = nlist * 10
		}
		mkTrain := func(n int) []comet.VectorNode {
			t := make([]comet.VectorNode, n)
			for i := range t {
				v := make([]float32, dim)
				for j := range v {
					v[j] = float32(rng.NormFloat64())
				}
				if rng.IntN(10) == 0 && i > 0 {
					v = cloneF32(t[rng.IntN(i)].Vector())
				}
				t[i] = *comet.NewVectorNodeWithID(uint32(i+1), v)
			}
			return t
		}
		if minTrain > 1 {
			if err := s.idx.Train(mkTrain(minTrain - 1)); err == nil {
				rep(kind+".train-accepts-below-documented-minimum", fmt.Sprintf("Train accepted %d vectors", minTrain-1))
				return
			}
		}
		nTrain := minTrain
		if rng.IntN(2) == 0 {
			nTrain += rng.IntN(100)
		}
		s.params += fmt.Sprintf(" ntrain=%d", nTrain)
		var trainErr error
		var trainBuffers []comet.VectorNode
		panicked := false
		func() {
			defer func() {
				if p := recover(); p != nil {
					panicked = true
					rep(kind+".train-panics-on-accepted-size", fmt.Sprintf("Train panicked on %d vectors (minimum accepted size %d): %v", nTrain, minTrain, p))
				}
			}()
			tr := mkTrain(nTrain)
			trainErr = s.idx.Train(tr)
			if trainErr == nil {
				trainBuffers = tr
			}
		}()
		if panicked {
			return
		}
		if trainErr != nil {
			if nTrain >= ksub {
				rep(kind+".train-error", trainErr.Error())
				return
			}
			// an error (not a panic) for a set smaller than the code space is legal: train with enough
			r.Count("train-below-code-space-rejected-with-error(legal)", 1)
			nTrain = ksub + rng.IntN(50)
			tr := mkTrain(nTrain)
			if err := s.idx.Train(tr); err != nil {
				rep(kind+".train-error", err.Error())
				return
			}
			trainBuffers = tr
		}
		// a REFUSED Train on an already trained index (too few vectors) leaves it exactly as it was
		if minTrain > 1 && rng.IntN(3) == 0 {
			d1, ok := trainedStateDigest(s.idx)
			few := minTrain - 1
			if kind == "ivfpq" && ksub-1 >= nlist*10 && rng.IntN(2) == 0 {
				few = ksub - 1 // enough for the coarse quantiser, too few for the codebooks
			}
			if err := s.idx.Train(mkTrain(few)); err != nil && ok {
				if d2, _ := trainedStateDigest(s.idx); d2 != d1 {
					rep(kind+".refused-train-changes-state", fmt.Sprintf("Train with %d vectors was refused (%v) but the centroids / codebooks changed", few, err))
					return
				}
				if !s.idx.Trained() {
					rep(kind+".refused-train-changes-state", "a refused Train left the index untrained")
					return
				}
				r.Count("ops:refused-train-on-a-trained-index", 1)
			}
		}
		// the caller reuses its training buffers: right after Train in half of the cases, otherwise in the middle of the
		// history, when vectors are already stored (an index whose centroids / codebooks still point into the training
		// data then decodes stored codes against moved centroids)
		scribbleAt := -1
		if rng.IntN(2) == 0 {
			if scribbleAndCheck(s.idx, trainBuffers) {
				rep(kind+".trained-state-aliases-training-data", "centroids / codebooks changed when the caller overwrote its training vectors after Train had returned")
				return
			}
		} else {
			scribbleAt = 2 + rng.IntN(6)
		}
		removals, flushes, nonEmpty := 0, 0, 0
		type entry struct {
			vec    []float32
			code   []uint8
			list   int
			cent   []float32
			recon  []float32
			qerr   float64
			stored bool
		}
		var codebooks [][]float32
		var centroids [][]float32
		snapshot := func() map[uint32]*entry {
			out := map[uint32]*entry{}
			add := func(e comet.VerifStoredVector, list int, cent []float32, kdsub int) {
				en := &entry{vec: e.Vector, code: e.Code, list: list, cent: cent}
				en.recon = make([]float32, dim)
				for mm := 0; mm < M; mm++ {
					cw := codebooks[mm][int(e.Code[mm])*kdsub : (int(e.Code[mm])+1)*kdsub]
					for j := 0; j < kdsub; j++ {
						en.recon[mm*kdsub+j] = cw[j]
						if cent != nil {
							en.recon[mm*kdsub+j] += cent[mm*kdsub+j]
						}
					}
				}
				if e.Vector != nil {
					en.qerr = l2ref(e.Vector, en.recon)
					en.stored = true
				}
				out[e.ID] = en
			}
			if kind == "pq" {
				st := comet.VerifPQState(s.idx.(*comet.PQIndex))
				codebooks = st.Codebooks
				for _, e := range st.Entries {
					add(e, 0, nil, st.Dsub)
				}
			} else {
				st := comet.VerifIVFPQState(s.idx.(*comet.IVFPQIndex))
				codebooks, centroids = st.Codebooks, st.Centroids
				for li, l := range st.Lists {
					for _, e := range l {
						add(e, li, st.Centroids[li], st.Dsub)
					}
				}
			}
			return out
		}
		snapshot() // loads codebooks
		for mm := range codebooks {
			if len(codebooks[mm]) != ksub*dsub {
				rep(kind+".codebook-size", fmt.Sprintf("codebook %d has %d floats, want Ksub*dsub=%d", mm, len(codebooks[mm]), ksub*dsub))
				return
			}
		}
		checkCodes := func() {
			ents := snapshot()
			for id, e := range ents {
				if !e.stored {
					continue
				}
				target := e.vec
				if kind == "ivfpq" {
					// assigned cluster must be the nearest centroid
					d := s.dist.Calculate(e.vec, e.cent)
					for cj := range centroids {
						if dj := s.dist.Calculate(e.vec, centroids[cj]); dj < d {
							rep("ivfpq.not-nearest-cluster", fmt.Sprintf("id %d in list %d (d=%g) but centroid %d is nearer (d=%g)", id, e.list, d, cj, dj))
							return
						}
					}
					target = make([]float32, dim)
					for j := range target {
						target[j] = e.vec[j] - e.cent[j]
					}
				}
				for mm := 0; mm < M; mm++ {
					ok, best, dc, bd := nearestCodewordOK(target[mm*dsub:(mm+1)*dsub], codebooks[mm], dsub, ksub, int(e.code[mm]))
					if !ok {
						rep(kind+".code-not-nearest-codeword", fmt.Sprintf("id %d subspace %d: stored code %d (d=%g) but codeword %d is nearer (d=%g); Ksub=%d", id, mm, e.code[mm], dc, best, bd, ksub))
						return
					}
				}
			}
			r.Count("invariant:code-checks", 1)
		}
		var held *heldSearch
		probe := func() {
			if held == nil || rng.IntN(8) == 0 {
				ho := s.genProbeOpts(rng)
				held = newHeldSearch(func() comet.VectorSearch { return s.search(ho) })
				hq := vg.query()
				held.step("WithQuery", func(x comet.VectorSearch) comet.VectorSearch { return x.WithQuery(cloneF32(hq)) })
			} else {
				heldSearchStep(rng, held, vg.query(), m.liveIDs(), len(m.live))
			}
			if !held.compare(rep, kind) {
				held = nil
			}
			r.Count("probes:held-search-object", 1)
			ents := snapshot()
			for qi := 0; qi < 1+rng.IntN(2); qi++ {
				q := vg.query()
				if rng.IntN(3) == 0 && len(ents) > 0 {
					// crafted: a query on the line from a stored vector's base point (its list centroid; the origin for PQ)
					// through its QUANTISED form, at or beyond it — the score is the distance to the reconstruction, which
					// may lie farther out than every true vector of the list (a bound computed from true vectors is no bound)
					keys := make([]uint32, 0, len(ents))
					for id := range ents {
						keys = append(keys, id)
					}
					sort.Slice(keys, func(a, b int) bool { return keys[a] < keys[b] })
					en := ents[keys[rng.IntN(len(keys))]]
					lam := []float32{1, 1.25, 2, 5}[rng.IntN(4)]
					q = make([]float32, dim)
					nonZero := false
					for j := range q {
						var base float32
						if en.cent != nil {
							base = en.cent[j]
						}
						q[j] = base + lam*(en.recon[j]-base)
						nonZero = nonZero || q[j] != 0
					}
					if !nonZero {
						q = vg.query()
					} else {
						r.Count("probes:query-beyond-a-reconstruction", 1)
					}
				}
				o := s.genProbeOpts(rng)
				res, err := s.search(o).WithQuery(cloneF32(q)).WithK(0).Execute()
				if err != nil {
					rep(kind+".search-error", err.Error())
					continue
				}
				full := toListing(res)
				e, err := s.expect(q, m, o.NProbes)
				if err != nil {
					rep(kind+".oracle-error", err.Error())
					continue
				}
				if checkListingAlts(rep, kind+".full", full, m.live, e) {
					r.Count("probes:ambiguous-tie(soundness only)", 1)
				} else {
					r.Count("probes:complete", 1)
				}
				if len(full.ids) > 0 {
					nonEmpty++
				}
				// |score - true distance| <= quantisation error
				pq, _ := s.dist.Preprocess(cloneF32(q))
				for i, id := range full.ids {
					en := ents[id]
					if en == nil || !en.stored {
						continue
					}
					td := l2ref(pq, en.vec)
					tol := relTolL2(dim)*(td+en.qerr+float64(full.scores[i])) + 1e-6
					if diff := math.Abs(float64(full.scores[i]) - td); diff > en.qerr+tol {
						rep(kind+".score-outside-quantisation-error", fmt.Sprintf("id %d score %g, true Euclidean distance %g, quantisation error %g", id, full.scores[i], td, en.qerr))
						break
					}
					if en.qerr <= 1e-6*(1+td) {
						r.Count("probes:vector-equals-reconstruction", 1)
					}
				}
				for _, v := range genVariants(rng, full, m, ids, 2) {
					bq := applyOpts(s.search(o).WithQuery(cloneF32(q)), v)
					got, err := bq.Execute()
					if err == nil && rng.IntN(4) == 0 {
						checkReexecute(rep, kind, bq, got)
						r.Count("probes:re-executed-search-object", 1)
					}
					if err != nil {
						rep(kind+".search-error", err.Error())
						continue
					}
					checkVariant(rep, kind+".variant", full, got, v)
					r.Count("probes:restricted", 1)
				}
			}
		}
		nOps := 6 + rng.IntN(24)
		for op := 0; op < nOps; op++ {
			if op == scribbleAt {
				scribbleOver(trainBuffers)
				r.Count("ops:training-buffers-overwritten-mid-history", 1)
			}
			c := rng.IntN(10)
			switch {
			case c < 6 || len(m.live) == 0:
				id, v := ids.next(), vg.fresh()
				if rng.IntN(3) == 0 && metric != comet.Cosine {
					// crafted: a concatenation of codewords (plus a centroid for IVFPQ) is its own reconstruction
					v = make([]float32, dim)
					var cent []float32
					if kind == "ivfpq" {
						cent = centroids[rng.IntN(len(centroids))]
					}
					for mm := 0; mm < M; mm++ {
						k := rng.IntN(ksub)
						copy(v[mm*dsub:(mm+1)*dsub], codebooks[mm][k*dsub:(k+1)*dsub])
					}
					if cent != nil {
						for j := range v {
							v[j] += cent[j]
						}
					}
					r.Count("ops:add-crafted-codeword-vector", 1)
				}
				zero := true
				for _, x := range v {
					if x != 0 {
						zero = false
					}
				}
				if zero && metric == comet.Cosine {
					v[0] = 1
				}
				hist = append(hist, histOp{Op: "add", ID: id, Vec: cloneF32(v)})
				if err := s.idx.Add(*comet.NewVectorNodeWithID(id, cloneF32(v))); err != nil {
					rep(kind+".add-error", err.Error())
					return
				}
				m.add(id, v)
			case c < 8:
				live := m.liveIDs()
				id := live[rng.IntN(len(live))]
				hist = append(hist, histOp{Op: "remove", ID: id})
				if err := s.idx.Remove(*comet.NewVectorNodeWithID(id, nil)); err != nil {
					rep(kind+".remove-error", err.Error())
				}
				m.remove(id)
				removals++
				if rng.IntN(2) == 0 {
					// update = remove + add of the same id, with or without a Flush in between; the new vector is
					// usually far from the old one so that it belongs to another cluster / other codewords
					if rng.IntN(3) == 0 {
						hist = append(hist, histOp{Op: "flush"})
						s.idx.Flush()
						m.flush()
						flushes++
					}
					v := vg.fresh()
					for j := range v {
						v[j] = -3*m.raw[id][j] + v[j]
					}
					if zero := func() bool {
						for _, x := range v {
							if x != 0 {
								return false
							}
						}
						return true
					}(); zero {
						v[0] = 1
					}
					hist = append(hist, histOp{Op: "re-add", ID: id, Vec: cloneF32(v)})
					if err := s.idx.Add(*comet.NewVectorNodeWithID(id, cloneF32(v))); err != nil {
						rep(kind+".readd-error", err.Error())
						return
					}
					m.add(id, v)
					r.Count("ops:re-add-removed-id", 1)
					checkCodes()
				}
			default:
				hist = append(hist, histOp{Op: "flush"})
				if err := s.idx.Flush(); err != nil {
					rep(kind+".flush-error", err.Error())
				}
				m.flush()
				flushes++
			}
			if op%3 == 2 || op == nOps-1 {
				checkCodes()
				probe()
			}
		}
		if r.WantSample() && ci%30 < 2 {
			h := hist
			if len(h) > 4 {
				h = h[:4]
			}
			r.Sample(map[string]any{"kind": kind, "metric": metric, "params": s.params, "history_head": h})
		}
		r.Count("histories:"+kind, 1)
		r.Eval(ksub >= 2 && removals > 0 && flushes > 0 && nonEmpty > 0, ev.Digest(kind, metric, s.params, len(hist), ci))
	})
}
