package mon

import (
	"fmt"
	"math"
	"math/rand/v2"
	"sort"

	"github.com/wizenheimer/comet"

	"verif/internal/ev"
)

// ---------------------------------------------------------------------------
// reference model for vector indexes (DESIGN §3.2) and the listing/variant oracle (§3.3)
// ---------------------------------------------------------------------------

type vecModel struct {
	metric   comet.DistanceKind
	dim      int
	raw      map[uint32][]float32 // as handed to Add, before any normalisation
	live     map[uint32]bool
	resident map[uint32]bool // live + removed-but-not-flushed
	removed  map[uint32]bool // ever removed and not re-added
}

func newVecModel(metric comet.DistanceKind, dim int) *vecModel {
	return &vecModel{metric: metric, dim: dim, raw: map[uint32][]float32{}, live: map[uint32]bool{},
		resident: map[uint32]bool{}, removed: map[uint32]bool{}}
}

func (m *vecModel) add(id uint32, v []float32) {
	m.raw[id] = cloneF32(v)
	m.live[id] = true
	m.resident[id] = true
	delete(m.removed, id)
}
func (m *vecModel) remove(id uint32) { delete(m.live, id); m.removed[id] = true }
func (m *vecModel) flush() {
	for id := range m.resident {
		if !m.live[id] {
			delete(m.resident, id)
		}
	}
}

func (m *vecModel) liveIDs() []uint32 {
	out := make([]uint32, 0, len(m.live))
	for id := range m.live {
		out = append(out, id)
	}
	sort.Slice(out, func(i, j int) bool { return out[i] < out[j] })
	return out
}

// trueDist is the metric distance between raw query and raw stored vector in float64.
func trueDist(metric comet.DistanceKind, q, v []float32) float64 {
	switch metric {
	case comet.Euclidean:
		return l2ref(q, v)
	case comet.L2Squared:
		d := l2ref(q, v)
		return d * d
	default:
		return cosDistRef(q, v)
	}
}

// distTol is the allowed |reported - true| for a float32 implementation.
func distTol(metric comet.DistanceKind, dim int, ref float64) float64 {
	switch metric {
	case comet.Euclidean:
		return relTolL2(dim)*ref + 1e-30
	case comet.L2Squared:
		return 2*relTolL2(dim)*ref + 1e-37
	default:
		return absTolCos(dim)
	}
}

// listing is one complete answer (k<=0, no threshold, no id restriction) of the implementation.
type listing struct {
	ids     []uint32
	scores  []float32
	scoreOf map[uint32]float32
}

func toListing(res []comet.VectorResult) *listing {
	l := &listing{scoreOf: map[uint32]float32{}}
	for _, r := range res {
		l.ids = append(l.ids, r.GetId())
		l.scores = append(l.scores, r.GetScore())
		l.scoreOf[r.GetId()] = r.GetScore()
	}
	return l
}

// reporter is how oracles report: sig + text (the caller adds the witness).
type reporter func(sig, what string)

// checkListing verifies a complete listing against the model.
//
//	universe: ids that must all appear (nil = soundness only, results must merely be live)
//	scoreFn:  expected score and tolerance per id
func checkListing(rep reporter, tag string, l *listing, live map[uint32]bool, universe map[uint32]bool,
	scoreFn func(id uint32) (float64, float64), r *ev.Run) {
	seen := map[uint32]bool{}
	for i, id := range l.ids {
		if seen[id] {
			rep(tag+".duplicate-id", fmt.Sprintf("id %d returned twice", id))
		}
		seen[id] = true
		if !live[id] {
			rep(tag+".non-live-id", fmt.Sprintf("id %d returned but it is removed or was never added", id))
			continue
		}
		if universe != nil && !universe[id] {
			rep(tag+".outside-universe", fmt.Sprintf("id %d returned but it is outside the searched set", id))
		}
		want, tol := scoreFn(id)
		got := float64(l.scores[i])
		if math.IsNaN(got) || math.Abs(got-want) > tol {
			rep(tag+".score", fmt.Sprintf("id %d reported score %g, definition gives %g (tol %g)", id, got, want, tol))
		} else if tol > 0 && r != nil {
			r.Max("score_err_over_tol", math.Abs(got-want)/tol)
		}
		if i > 0 && l.scores[i] < l.scores[i-1] {
			rep(tag+".order", fmt.Sprintf("scores not ascending at rank %d: %g then %g", i, l.scores[i-1], l.scores[i]))
		}
	}
	if universe != nil {
		for id := range universe {
			if live[id] && !seen[id] {
				rep(tag+".missing-live-id", fmt.Sprintf("live id %d missing from a complete listing (%d returned, %d expected)", id, len(l.ids), len(universe)))
				break
			}
		}
	}
}

// searchOpts are the restricting options of one variant probe.
type searchOpts struct {
	K         int
	Threshold float32
	DocIDs    []uint32
	CutoffSet bool // WithCutoff(Cutoff) is applied (autocut: -1 = disabled, anything else = enabled)
	Cutoff    int
}

// checkVariant decides a restricted probe exactly against the complete listing of the same query
// (same nprobes/ef): expected = listing filtered by DocIDs and score<=Threshold, first K.
func checkVariant(rep reporter, tag string, full *listing, got []comet.VectorResult, o searchOpts) {
	allowed := map[uint32]bool{}
	for _, id := range o.DocIDs {
		allowed[id] = true
	}
	var exp []float32
	for i, id := range full.ids {
		if len(o.DocIDs) > 0 && !allowed[id] {
			continue
		}
		if o.Threshold > 0 && full.scores[i] > o.Threshold {
			continue
		}
		exp = append(exp, full.scores[i])
	}
	if o.K > 0 && o.K < len(exp) {
		exp = exp[:o.K]
	}
	desc := fmt.Sprintf("k=%d thr=%g ids=%d", o.K, o.Threshold, len(o.DocIDs))
	if o.CutoffSet && o.Cutoff != -1 {
		// autocut enabled: the answer is a PREFIX of what the same search returns without it (never more, never
		// other results, never a panic), whatever the cutoff value
		desc += fmt.Sprintf(" cutoff=%d", o.Cutoff)
		if len(got) > len(exp) {
			rep(tag+".cutoff-not-a-prefix", fmt.Sprintf("%s: %d results, the same search without autocut has only %d", desc, len(got), len(exp)))
			return
		}
		exp = exp[:len(got)]
	}
	if len(got) != len(exp) {
		rep(tag+".length", fmt.Sprintf("%s: %d results, exact top-k of the eligible set has %d", desc, len(got), len(exp)))
		return
	}
	seen := map[uint32]bool{}
	for i, g := range got {
		id := g.GetId()
		if seen[id] {
			rep(tag+".duplicate-id", fmt.Sprintf("%s: id %d twice", desc, id))
		}
		seen[id] = true
		s, ok := full.scoreOf[id]
		if !ok {
			rep(tag+".foreign-id", fmt.Sprintf("%s: id %d is not in the complete listing of the same query", desc, id))
			continue
		}
		if len(o.DocIDs) > 0 && !allowed[id] {
			rep(tag+".id-restriction-ignored", fmt.Sprintf("%s: id %d is outside the document-id restriction", desc, id))
		}
		if o.Threshold > 0 && g.GetScore() > o.Threshold {
			rep(tag+".threshold-ignored", fmt.Sprintf("%s: score %g above threshold", desc, g.GetScore()))
		}
		if math.Float32bits(s) != math.Float32bits(g.GetScore()) {
			rep(tag+".score-differs", fmt.Sprintf("%s: id %d score %g, unrestricted search reported %g", desc, id, g.GetScore(), s))
		}
		if math.Float32bits(exp[i]) != math.Float32bits(g.GetScore()) {
			rep(tag+".not-top-k", fmt.Sprintf("%s: rank %d has score %g, exact top-k has %g there", desc, i, g.GetScore(), exp[i]))
			return
		}
	}
}

// genVariants draws the restricted probes for one query given its complete listing.
func genVariants(rng *rand.Rand, full *listing, m *vecModel, ids *idGen, n int) []searchOpts {
	var out []searchOpts
	live := m.liveIDs()
	nl := len(full.ids)
	for t := 0; t < n; t++ {
		var o searchOpts
		switch rng.IntN(9) {
		case 0:
			o.K = -3
		case 1:
			o.K = 0
		case 2:
			o.K = 1
		case 3:
			o.K = 2
		case 4:
			o.K = nl - 1
		case 5:
			o.K = nl
		case 6:
			o.K = nl + 1
		case 7:
			o.K = 1000000
		default:
			o.K = 1 + rng.IntN(nl+2)
		}
		if rng.IntN(24) == 0 {
			o.K = []int{math.MaxInt32, math.MaxInt64, math.MinInt64, math.MinInt32}[rng.IntN(4)] // all of them mean "everything"
		}
		switch rng.IntN(8) {
		case 0:
			if nl > 0 { // exactly the score of one of the best three: a tight bound, the documented <= boundary
				o.Threshold = full.scores[rng.IntN(min(nl, 3))]
			}
		case 1:
			if nl > 0 { // exactly a reported score: the documented <= boundary
				o.Threshold = full.scores[rng.IntN(nl)]
			}
		case 2:
			if nl > 1 { // midpoint between two reported scores
				a, b := full.scores[rng.IntN(nl)], full.scores[rng.IntN(nl)]
				o.Threshold = (a + b) / 2
			}
		case 3:
			o.Threshold = 1e-9
		case 4:
			o.Threshold = 1e9
		}
		if o.Threshold < 0 || math.IsNaN(float64(o.Threshold)) {
			o.Threshold = 0
		}
		if rng.IntN(6) == 0 {
			o.CutoffSet, o.Cutoff = true, []int{-1, -1, 0, 1, 2, 3, 5, -2, -7}[rng.IntN(9)]
		}
		switch rng.IntN(6) {
		case 0, 1: // random live subset
			for _, id := range live {
				if rng.IntN(2) == 0 {
					o.DocIDs = append(o.DocIDs, id)
				}
			}
		case 2: // mixed with removed and never-added ids
			for _, id := range live {
				if rng.IntN(3) == 0 {
					o.DocIDs = append(o.DocIDs, id)
				}
			}
			for _, id := range sortedKeys(m.removed) {
				if rng.IntN(2) == 0 {
					o.DocIDs = append(o.DocIDs, id)
				}
			}
			o.DocIDs = append(o.DocIDs, ids.absent())
		case 3: // singleton absent id
			o.DocIDs = []uint32{ids.absent()}
		case 4: // ONLY removed ids (pending tombstones first): nothing is eligible, the answer is empty - not unrestricted
			rm := sortedKeys(m.removed)
			for _, id := range rm {
				if m.resident[id] || rng.IntN(2) == 0 {
					o.DocIDs = append(o.DocIDs, id)
				}
			}
			if len(o.DocIDs) == 0 && len(rm) > 0 {
				o.DocIDs = []uint32{rm[rng.IntN(len(rm))]}
			}
		}
		if len(o.DocIDs) > 1 {
			// callers hand restriction lists in any order and with repeats
			switch rng.IntN(3) {
			case 0:
				rng.Shuffle(len(o.DocIDs), func(a, b int) { o.DocIDs[a], o.DocIDs[b] = o.DocIDs[b], o.DocIDs[a] })
			case 1:
				o.DocIDs = append(o.DocIDs, o.DocIDs[rng.IntN(len(o.DocIDs))])
				rng.Shuffle(len(o.DocIDs), func(a, b int) { o.DocIDs[a], o.DocIDs[b] = o.DocIDs[b], o.DocIDs[a] })
			}
		}
		out = append(out, o)
	}
	return out
}

func applyOpts(s comet.VectorSearch, o searchOpts) comet.VectorSearch {
	s = s.WithK(o.K)
	if o.CutoffSet {
		s = s.WithCutoff(o.Cutoff)
	}
	if o.Threshold != 0 {
		s = s.WithThreshold(o.Threshold)
	}
	if o.DocIDs != nil {
		s = s.WithDocumentIDs(o.DocIDs...)
	}
	return s
}

// aggregateExpected applies the C02 multi-query rule to per-query answers of the implementation itself.
func aggregateExpected(rule comet.ScoreAggregationKind, per [][]comet.VectorResult, k int) (ids map[uint32]float64, sorted []float64) {
	type acc struct {
		sum, max float64
		n        int
	}
	a := map[uint32]*acc{}
	for _, res := range per {
		for _, x := range res {
			c := a[x.GetId()]
			if c == nil {
				c = &acc{max: math.Inf(-1)}
				a[x.GetId()] = c
			}
			s := float64(x.GetScore())
			c.sum += s
			c.n++
			if s > c.max {
				c.max = s
			}
		}
	}
	ids = map[uint32]float64{}
	for id, c := range a {
		switch rule {
		case comet.MaxAggregation:
			ids[id] = c.max
		case comet.MeanAggregation:
			ids[id] = c.sum / float64(c.n)
		default:
			ids[id] = c.sum
		}
		sorted = append(sorted, ids[id])
	}
	sort.Float64s(sorted)
	if k > 0 && k < len(sorted) {
		sorted = sorted[:k]
	}
	return ids, sorted
}

// checkMultiQuery compares a multi-query answer with the aggregate of the single-query answers.
func checkMultiQuery(rep reporter, tag string, rule comet.ScoreAggregationKind, per [][]comet.VectorResult, got []comet.VectorResult, k int) {
	ids, sorted := aggregateExpected(rule, per, k)
	if len(got) != len(sorted) {
		rep(tag+".multi.length", fmt.Sprintf("%s over %d queries: %d results, aggregate of single answers has %d", rule, len(per), len(got), len(sorted)))
		return
	}
	seen := map[uint32]bool{}
	for i, g := range got {
		if seen[g.GetId()] {
			rep(tag+".multi.duplicate-id", fmt.Sprintf("id %d twice in multi-query answer", g.GetId()))
		}
		seen[g.GetId()] = true
		want, ok := ids[g.GetId()]
		tol := 1e-5*math.Abs(want) + 1e-30
		if !ok {
			rep(tag+".multi.foreign-id", fmt.Sprintf("id %d is in no single-query answer", g.GetId()))
			continue
		}
		if math.Abs(float64(g.GetScore())-want) > tol {
			rep(tag+".multi.score", fmt.Sprintf("%s: id %d combined score %g, rule gives %g", rule, g.GetId(), g.GetScore(), want))
		}
		if math.Abs(float64(g.GetScore())-sorted[i]) > 1e-5*math.Abs(sorted[i])+1e-30 {
			rep(tag+".multi.not-top-k", fmt.Sprintf("%s: rank %d score %g, expected %g", rule, i, g.GetScore(), sorted[i]))
			return
		}
		if i > 0 && got[i].GetScore() < got[i-1].GetScore() {
			rep(tag+".multi.order", "multi-query answer not ascending")
		}
	}
}

func sortedKeys(m map[uint32]bool) []uint32 {
	out := make([]uint32, 0, len(m))
	for id := range m {
		out = append(out, id)
	}
	sort.Slice(out, func(i, j int) bool { return out[i] < out[j] })
	return out
}

// checkReexecute: a search object executed a second time, unchanged, gives the same answer (same ids with the same
// score bits; the order inside exact ties is not compared). State kept between two Execute calls of one builder
// (caches, consumed buffers, pooled filters) shows up here.
func checkReexecute(rep reporter, tag string, b comet.VectorSearch, first []comet.VectorResult) {
	second, err := b.Execute()
	if err != nil {
		rep(tag+".reexecute-differs", "the second Execute of the same search object failed: "+err.Error())
		return
	}
	if len(second) != len(first) {
		rep(tag+".reexecute-differs", fmt.Sprintf("the second Execute of the same search object returned %d results, the first %d", len(second), len(first)))
		return
	}
	want := map[uint32]uint32{}
	for _, x := range first {
		want[x.GetId()] = math.Float32bits(x.GetScore())
	}
	for i, x := range second {
		lastTie := math.Float32bits(x.GetScore()) == math.Float32bits(first[len(first)-1].GetScore()) // k-th place ties: either id
		if bits, ok := want[x.GetId()]; !lastTie && (!ok || bits != math.Float32bits(x.GetScore())) {
			rep(tag+".reexecute-differs", fmt.Sprintf("the second Execute of the same search object differs at rank %d: id %d score %g", i, x.GetId(), x.GetScore()))
			return
		}
		if math.Float32bits(first[i].GetScore()) != math.Float32bits(x.GetScore()) {
			rep(tag+".reexecute-differs", fmt.Sprintf("the second Execute of the same search object has score %g at rank %d, the first had %g", x.GetScore(), i, first[i].GetScore()))
			return
		}
	}
}

// heldSearch is a search object that lives across index operations and is re-configured step by step. After every
// step (and after index changes) it is executed and compared with a FRESH search object to which the same setter calls
// were applied without any Execute in between: whatever a builder remembers from an earlier Execute (a clamped k, cached
// tables, queries appended to its own slice, a consumed filter) shows up as a difference.
type heldSearch struct {
	mk    func() comet.VectorSearch
	steps []func(comet.VectorSearch) comet.VectorSearch
	desc  []string
	b     comet.VectorSearch
}

func newHeldSearch(mk func() comet.VectorSearch) *heldSearch { return &heldSearch{mk: mk, b: mk()} }

func (h *heldSearch) step(desc string, f func(comet.VectorSearch) comet.VectorSearch) {
	h.steps = append(h.steps, f)
	h.desc = append(h.desc, desc)
	h.b = f(h.b)
}

// compare executes the held object and a fresh equivalent; returns false after reporting a difference.
func (h *heldSearch) compare(rep reporter, tag string) bool {
	got, err1 := h.b.Execute()
	fresh := h.mk()
	for _, f := range h.steps {
		fresh = f(fresh)
	}
	want, err2 := fresh.Execute()
	d := fmt.Sprintf("search object configured by %v and executed %d times before", h.desc, len(h.steps))
	if (err1 != nil) != (err2 != nil) {
		rep(tag+".held-search-object-differs", fmt.Sprintf("%s: error %v, a fresh object with the same configuration: %v", d, err1, err2))
		return false
	}
	if err1 != nil {
		return true
	}
	if len(got) != len(want) {
		rep(tag+".held-search-object-differs", fmt.Sprintf("%s returns %d results, a fresh object with the same configuration %d", d, len(got), len(want)))
		return false
	}
	ws := map[uint32]uint32{}
	for _, x := range want {
		ws[x.GetId()] = math.Float32bits(x.GetScore())
	}
	for i, x := range got {
		if math.Float32bits(want[i].GetScore()) != math.Float32bits(x.GetScore()) {
			rep(tag+".held-search-object-differs", fmt.Sprintf("%s: rank %d has score %g, a fresh object with the same configuration %g", d, i, x.GetScore(), want[i].GetScore()))
			return false
		}
		// ids that share the score of the last rank may legitimately differ (a k-th place tie is broken by map order)
		if math.Float32bits(x.GetScore()) == math.Float32bits(want[len(want)-1].GetScore()) {
			continue
		}
		if bits, ok := ws[x.GetId()]; !ok || bits != math.Float32bits(x.GetScore()) {
			rep(tag+".held-search-object-differs", fmt.Sprintf("%s: id %d (score %g) is not in the answer of a fresh object with the same configuration", d, x.GetId(), x.GetScore()))
			return false
		}
	}
	return true
}

// heldSearchStep draws one re-configuration step.
func heldSearchStep(rng *rand.Rand, h *heldSearch, q []float32, live []uint32, nl int) {
	switch rng.IntN(6) {
	case 0:
		qq := cloneF32(q)
		h.step("WithQuery", func(s comet.VectorSearch) comet.VectorSearch { return s.WithQuery(cloneF32(qq)) })
	case 1, 2:
		k := []int{0, 1, 2, 5, nl + 3, 10, 1000000}[rng.IntN(7)]
		h.step(fmt.Sprintf("WithK(%d)", k), func(s comet.VectorSearch) comet.VectorSearch { return s.WithK(k) })
	case 3:
		if len(live) > 0 {
			id := live[rng.IntN(len(live))]
			h.step(fmt.Sprintf("WithNode(%d)", id), func(s comet.VectorSearch) comet.VectorSearch { return s.WithNode(id) })
		}
	case 4:
		var sub []uint32
		for _, id := range live {
			if rng.IntN(2) == 0 {
				sub = append(sub, id)
			}
		}
		if len(sub) > 0 {
			h.step(fmt.Sprintf("WithDocumentIDs(%d ids)", len(sub)), func(s comet.VectorSearch) comet.VectorSearch { return s.WithDocumentIDs(sub...) })
		}
	default:
		// no re-configuration: only the index changed since the last Execute
	}
}
