package mon

import (
	"compress/gzip"
	"crypto/sha256"
	"fmt"
	"io"
	"math/rand/v2"
	"os"
	"path/filepath"
	"sort"
	"strconv"
	"strings"
	"sync/atomic"
	"time"

	"github.com/wizenheimer/comet"
)

// ---------------------------------------------------------------------------
// persistent-store harness shared by C08, C09, C10, C11, C16(segments), C17
// ---------------------------------------------------------------------------

type storeParams struct {
	VecKind             string // "flat", "hnsw", "ivf", "" (none)
	Text, Meta          bool
	Dim                 int
	Metric              comet.DistanceKind
	MemtableSizeLimit   int64
	FlushThreshold      int64
	CompactionThreshold int
	HnswM               int
	Nlist               int
	ivfTrain            [][]float32 // training set (fixed per case) for the ivf template
	ivfUntrained        bool        // hand the store an UNTRAINED ivf template (it is trained later through store.Train)
}

func (p storeParams) String() string {
	return fmt.Sprintf("vec=%s text=%v meta=%v dim=%d %s memLimit=%d flushThr=%d compactThr=%d", p.VecKind, p.Text, p.Meta, p.Dim, p.Metric, p.MemtableSizeLimit, p.FlushThreshold, p.CompactionThreshold)
}

// freshConfig builds a StorageConfig with freshly constructed templates (never reused across opens).
func (p storeParams) freshConfig(dir string) (*comet.StorageConfig, error) {
	cfg := comet.DefaultStorageConfig(dir)
	cfg.MemtableSizeLimit = p.MemtableSizeLimit
	cfg.FlushThreshold = p.FlushThreshold
	cfg.CompactionInterval = 24 * time.Hour // background compaction only when triggered
	cfg.CompactionThreshold = p.CompactionThreshold
	switch p.VecKind {
	case "flat":
		x, err := comet.NewFlatIndex(p.Dim, p.Metric)
		if err != nil {
			return nil, err
		}
		cfg.VectorIndexTemplate = x
	case "hnsw":
		x, err := comet.NewHNSWIndex(p.Dim, p.Metric, p.HnswM, 200, 200)
		if err != nil {
			return nil, err
		}
		cfg.VectorIndexTemplate = x
	case "ivf":
		x, err := comet.NewIVFIndex(p.Dim, p.Nlist, p.Metric)
		if err != nil {
			return nil, err
		}
		// every fresh template is trained on the same sample in a DIFFERENT order (k-means then numbers/places its
		// clusters differently): a segment must answer with the centroids it was written with, not the template's
		nodes := make([]comet.VectorNode, len(p.ivfTrain))
		rot := int(ivfTrainRotation.Add(1)) % max(len(p.ivfTrain), 1)
		for i := range p.ivfTrain {
			v := p.ivfTrain[(i*7+rot)%len(p.ivfTrain)]
			if len(p.ivfTrain)%7 == 0 {
				v = p.ivfTrain[(i+rot)%len(p.ivfTrain)]
			}
			nodes[i] = *comet.NewVectorNodeWithID(uint32(i+1), cloneF32(v))
		}
		if !p.ivfUntrained {
			if err := x.Train(nodes); err != nil {
				return nil, err
			}
		}
		cfg.VectorIndexTemplate = x
	case "pq", "ivfpq":
		// quantising templates (M = 1 sub-space, 4-bit codes), trained before Open like the ivf one; scores are
		// approximate, but every live vector is returned for k beyond the corpus (PQ scans everything, IVFPQ is searched
		// at full probe), which is all the store monitors ask of them
		var x comet.VectorIndex
		var err error
		if p.VecKind == "pq" {
			x, err = comet.NewPQIndex(p.Dim, p.Metric, 1, 4)
		} else {
			x, err = comet.NewIVFPQIndex(p.Dim, p.Metric, p.Nlist, 1, 4)
		}
		if err != nil {
			return nil, err
		}
		nodes := make([]comet.VectorNode, len(p.ivfTrain))
		for i, v := range p.ivfTrain {
			nodes[i] = *comet.NewVectorNodeWithID(uint32(i+1), cloneF32(v))
		}
		if err := x.Train(nodes); err != nil {
			return nil, err
		}
		scribbleOver(nodes)
		cfg.VectorIndexTemplate = x
	}
	if p.Text {
		cfg.TextIndexTemplate = comet.NewBM25SearchIndex()
	}
	if p.Meta {
		cfg.MetadataIndexTemplate = comet.NewRoaringMetadataIndex()
	}
	return cfg, nil
}

func (p storeParams) open(dir string) (*comet.PersistentHybridIndex, error) {
	cfg, err := p.freshConfig(dir)
	if err != nil {
		return nil, err
	}
	return comet.OpenPersistentHybridIndex(cfg)
}

var ivfTrainRotation atomic.Int64

// storeDoc is one document of a store workload. Every document carries the marker term "common" in its
// text and the field kind="doc" in its metadata so that one query per modality matches all of them.
type storeDoc struct {
	ID   uint32
	Vec  []float32
	Text string
	Meta map[string]any
}

func genStoreDoc(rng *rand.Rand, p storeParams, id uint32, marker string) storeDoc {
	d := storeDoc{ID: id}
	if p.VecKind != "" {
		d.Vec = make([]float32, p.Dim)
		for i := range d.Vec {
			d.Vec[i] = float32(rng.NormFloat64())
		}
		d.Vec[0] += 0.5
	}
	if p.Text {
		d.Text = fmt.Sprintf("common %s w%d w%d", marker, rng.IntN(7), rng.IntN(7))
		switch rng.IntN(40) {
		case 0: // a very long unbroken token (an API key, a base64 blob)
			d.Text += " " + strings.Repeat("k3yBl0b", 60)
		case 1: // a long run of blanks (one segment for the tokeniser)
			d.Text += strings.Repeat(" ", 300) + "tail"
		}
	}
	if p.Meta {
		d.Meta = map[string]any{"kind": "doc", "n": int(id % 1000), "marker": marker}
		if rng.IntN(4) == 0 {
			// a document without the numeric field: with tiny memtables some memtable / segment then holds no
			// document carrying "n" at all, and a range filter on it must simply match nothing there
			delete(d.Meta, "n")
		}
	}
	return d
}

const bigK = 1 << 20

type storeAnswers struct {
	Vec, Text, Meta map[uint32]bool
	// Combos: the same all-matching parts combined in ONE query (vector+metadata, text+metadata, vector+text), issued
	// after the single-modality ones: a part of the store that was loaded or cached for a narrower query must serve
	// the wider one just as completely
	Combos map[string]map[uint32]bool
	Err    error
}

// searchAllModalities issues one all-matching query per configured modality.
func searchAllModalities(s comet.HybridSearchIndex, p storeParams) storeAnswers {
	var a storeAnswers
	toSet := func(res []comet.HybridSearchResult) map[uint32]bool {
		m := map[uint32]bool{}
		for _, x := range res {
			m[x.ID] = true
		}
		return m
	}
	if p.VecKind != "" {
		q := make([]float32, p.Dim)
		q[0] = 1
		x := s.NewSearch().WithVector(q).WithK(bigK)
		if p.VecKind == "ivf" || p.VecKind == "ivfpq" {
			x = x.WithNProbes(p.Nlist)
		}
		if p.VecKind == "hnsw" {
			x = x.WithEfSearch(100000)
		}
		res, err := x.Execute()
		if err != nil {
			a.Err = fmt.Errorf("vector query: %w", err)
			return a
		}
		a.Vec = toSet(res)
	}
	if p.Text {
		res, err := s.NewSearch().WithText("common").WithK(bigK).Execute()
		if err != nil {
			a.Err = fmt.Errorf("text query: %w", err)
			return a
		}
		a.Text = toSet(res)
	}
	if p.Meta {
		res, err := s.NewSearch().WithMetadata(comet.Eq("kind", "doc")).WithK(bigK).Execute()
		if err != nil {
			a.Err = fmt.Errorf("metadata query: %w", err)
			return a
		}
		a.Meta = toSet(res)
	}
	vec := func(x comet.HybridSearch) comet.HybridSearch {
		q := make([]float32, p.Dim)
		q[0] = 1
		x = x.WithVector(q)
		if p.VecKind == "ivf" || p.VecKind == "ivfpq" {
			x = x.WithNProbes(p.Nlist)
		}
		if p.VecKind == "hnsw" {
			x = x.WithEfSearch(100000)
		}
		return x
	}
	a.Combos = map[string]map[uint32]bool{}
	combo := func(name string, x comet.HybridSearch) bool {
		res, err := x.WithK(bigK).Execute()
		if err != nil {
			a.Err = fmt.Errorf("%s query: %w", name, err)
			return false
		}
		a.Combos[name] = toSet(res)
		return true
	}
	if p.VecKind != "" && p.Meta && !combo("vector+metadata", vec(s.NewSearch()).WithMetadata(comet.Eq("kind", "doc"))) {
		return a
	}
	if p.Text && p.Meta && !combo("text+metadata", s.NewSearch().WithText("common").WithMetadata(comet.Eq("kind", "doc"))) {
		return a
	}
	if p.VecKind != "" && p.Text && !combo("vector+text", vec(s.NewSearch()).WithText("common")) {
		return a
	}
	return a
}

// checkContains reports, per modality, documents of want that are missing and ids outside ever.
func (a storeAnswers) check(want, ever map[uint32]bool) (missing map[string][]uint32, foreign map[string][]uint32) {
	missing, foreign = map[string][]uint32{}, map[string][]uint32{}
	sets := map[string]map[uint32]bool{"vector": a.Vec, "text": a.Text, "metadata": a.Meta}
	for name, got := range a.Combos {
		sets[name] = got
	}
	for name, got := range sets {
		if got == nil {
			continue
		}
		for id := range want {
			if !got[id] {
				missing[name] = append(missing[name], id)
			}
		}
		for id := range got {
			if !ever[id] {
				foreign[name] = append(foreign[name], id)
			}
		}
		sort.Slice(missing[name], func(i, j int) bool { return missing[name][i] < missing[name][j] })
		if len(missing[name]) == 0 {
			delete(missing, name)
		}
		if len(foreign[name]) == 0 {
			delete(foreign, name)
		}
	}
	return
}

// segmentFiles lists the segment component files of a store directory: name -> sha256.
func segmentFiles(dir string) (map[string]string, error) {
	ents, err := os.ReadDir(dir)
	if err != nil {
		return nil, err
	}
	out := map[string]string{}
	for _, e := range ents {
		if e.IsDir() || e.Name() == "LOCK" {
			continue
		}
		b, err := os.ReadFile(filepath.Join(dir, e.Name()))
		if err != nil {
			return nil, err
		}
		out[e.Name()] = fmt.Sprintf("%x", sha256.Sum256(b))
	}
	return out, nil
}

// segmentIDOf parses "<kind>_<id>.bin.gz".
func segmentIDOf(name string) (uint64, bool) {
	i := strings.Index(name, "_")
	if i < 0 {
		return 0, false
	}
	s := strings.TrimSuffix(strings.TrimSuffix(name[i+1:], ".bin.gz"), ".bin")
	id, err := strconv.ParseUint(s, 10, 64)
	return id, err == nil
}

func maxSegmentID(files map[string]string) uint64 {
	var m uint64
	for name := range files {
		if id, ok := segmentIDOf(name); ok && id > m {
			m = id
		}
	}
	return m
}

func copyDir(src, dst string) error {
	if err := os.MkdirAll(dst, 0o755); err != nil {
		return err
	}
	ents, err := os.ReadDir(src)
	if err != nil {
		return err
	}
	for _, e := range ents {
		if e.IsDir() {
			continue
		}
		b, err := os.ReadFile(filepath.Join(src, e.Name()))
		if err != nil {
			if os.IsNotExist(err) {
				continue // deleted between listing and reading: a legal crash image either way
			}
			return err
		}
		if err := os.WriteFile(filepath.Join(dst, e.Name()), b, 0o644); err != nil {
			return err
		}
	}
	return nil
}

func idList(m map[uint32]bool) []uint32 { return sortedKeys(m) }

// loadSegmentDocs reads one segment from disk with the harness's own fresh indexes (public ReadFrom) and
// returns the ids it holds in any modality.
func loadSegmentDocs(dir string, seg uint64, p storeParams) (map[uint32]bool, error) {
	cfg, err := p.freshConfig(filepath.Join(dir, "unused"))
	if err != nil {
		return nil, err
	}
	h := comet.NewHybridSearchIndex(cfg.VectorIndexTemplate, cfg.TextIndexTemplate, cfg.MetadataIndexTemplate)
	var readers []io.Reader
	names := []string{"hybrid"}
	if p.VecKind != "" {
		names = append(names, "vector")
	}
	if p.Text {
		names = append(names, "text")
	}
	if p.Meta {
		names = append(names, "metadata")
	}
	for _, n := range names {
		f, err := os.Open(filepath.Join(dir, fmt.Sprintf("%s_%06d.bin.gz", n, seg)))
		if err != nil {
			return nil, err
		}
		defer f.Close()
		gz, err := gzip.NewReader(f)
		if err != nil {
			return nil, err
		}
		defer gz.Close()
		readers = append(readers, gz)
	}
	if _, err := h.ReadFrom(io.MultiReader(readers...)); err != nil {
		return nil, err
	}
	a := searchAllModalities(h, p)
	if a.Err != nil {
		return nil, a.Err
	}
	out := map[uint32]bool{}
	for _, m := range []map[uint32]bool{a.Vec, a.Text, a.Meta} {
		for id := range m {
			out[id] = true
		}
	}
	return out, nil
}

// obstructNextSegments makes the creation of the next n segments' <comp> file fail: a DIRECTORY is put where the file
// would go (os.Create on a directory fails with EISDIR). This is the I/O fault the monitors inject from outside the store;
// clearObstacles removes the directories again (and only them).
func obstructNextSegments(dir, comp string, n int) []string {
	var maxID uint64
	if es, err := os.ReadDir(dir); err == nil {
		for _, e := range es {
			if id, ok := segmentIDOf(e.Name()); ok && id > maxID {
				maxID = id
			}
		}
	}
	var out []string
	for i := 1; i <= n; i++ {
		path := filepath.Join(dir, fmt.Sprintf("%s_%06d.bin.gz", comp, maxID+uint64(i)))
		if err := os.Mkdir(path, 0o755); err == nil {
			out = append(out, path)
		}
	}
	return out
}

func clearObstacles(paths []string) {
	for _, path := range paths {
		if st, err := os.Stat(path); err == nil && st.IsDir() {
			os.Remove(path)
		}
	}
}

// spellDir returns dir in one of several equivalent spellings (trailing slash, "/.", a "./" in the middle).
func spellDir(rng *rand.Rand, dir string) string {
	switch rng.IntN(4) {
	case 0:
		return dir + "/"
	case 1:
		return dir + "/."
	case 2:
		return filepath.Dir(dir) + "/./" + filepath.Base(dir)
	}
	return dir
}
