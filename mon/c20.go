package mon

import (
	"fmt"
	"math"
	"math/rand/v2"

	"github.com/wizenheimer/comet"

	"verif/internal/ev"
)

func init() { register("C20", "exploration", runC20) }

func clone2D(v [][]float32) [][]float32 {
	o := make([][]float32, len(v))
	for i := range v {
		o[i] = cloneF32(v[i])
	}
	return o
}

func same2D(a, b [][]float32) bool {
	if len(a) != len(b) {
		return false
	}
	for i := range a {
		if !sameBits(a[i], b[i]) {
			return false
		}
	}
	return true
}

// genTrainingSet makes n vectors of dimension dim with duplicates / collinear / clustered shapes.
func genTrainingSet(rng *rand.Rand, n, dim int) [][]float32 {
	mode := rng.IntN(6)
	out := make([][]float32, n)
	base := make([]float32, dim)
	dir := make([]float32, dim)
	for j := range base {
		base[j] = float32(rng.NormFloat64() * 3)
		dir[j] = float32(rng.NormFloat64())
	}
	nCenters := 1 + rng.IntN(6)
	centers := make([][]float32, nCenters)
	for c := range centers {
		centers[c] = make([]float32, dim)
		for j := range centers[c] {
			centers[c][j] = float32(rng.NormFloat64() * 5)
		}
	}
	for i := range out {
		v := make([]float32, dim)
		switch mode {
		case 0: // gaussian
			for j := range v {
				v[j] = float32(rng.NormFloat64())
			}
		case 1: // few distinct points => duplicates, empty clusters
			copy(v, centers[rng.IntN(nCenters)])
		case 2: // collinear
			t := float32(rng.IntN(9) - 4)
			for j := range v {
				v[j] = base[j] + t*dir[j]
			}
		case 3: // clustered
			c := centers[rng.IntN(nCenters)]
			for j := range v {
				v[j] = c[j] + float32(rng.NormFloat64()*0.1)
			}
		case 4: // small integer lattice
			for j := range v {
				v[j] = float32(rng.IntN(3))
			}
		case 5: // all identical
			copy(v, base)
		}
		out[i] = v
	}
	return out
}

func runC20(r *ev.Run) {
	r.Rule = "case = one training set (1..500 vectors, dim 1..32, shapes gaussian/duplicates/collinear/clustered/lattice/identical, k and maxIter over Z) run through KMeans twice " +
		"(plus maxIter+1 to decide convergence observationally), or one vector batch through the three quantisers, or one twice-trained IVF/PQ/IVFPQ pair compared on a probe battery; " +
		"non-trivial = k>=2 and n>=2 (k-means) / batch has >=1 in-range non-zero component (quantiser); distinct by input digest"
	r.Assumptions = []string{"nearest-centroid clause uses comet's own Distance.Calculate (itself monitored by C18); bit-equal ties accepted",
		"convergence is decided observationally: identical centroids and mapping for maxIter=m and m+1"}
	nk := r.Pick(2500, 60000)
	kinds := []comet.DistanceKind{comet.Euclidean, comet.L2Squared, comet.Cosine}

	r.CasesParallel("kmeans", nk, 16, func(i int, rng *rand.Rand) {
		n := 1 + rng.IntN(40)
		if rng.IntN(5) == 0 {
			n = 1 + rng.IntN(500)
		}
		dim := 1 + rng.IntN(32)
		vecs := genTrainingSet(rng, n, dim)
		var k int
		switch rng.IntN(8) {
		case 0:
			k = -rng.IntN(3)
		case 1:
			k = n
		case 2:
			k = n + 1 + rng.IntN(5)
		default:
			k = 1 + rng.IntN(min(n, 20)+2)
		}
		var maxIter int
		switch rng.IntN(6) {
		case 0:
			maxIter = -rng.IntN(3)
		case 1:
			maxIter = 1
		default:
			maxIter = 1 + rng.IntN(40)
		}
		kind := kinds[rng.IntN(3)]
		dist, _ := comet.NewDistance(kind)
		sub := rng.IntN(4) == 0
		run := func(mi int) ([][]float32, []int) {
			if sub {
				return comet.KMeansSubspace(vecs, k, mi)
			}
			return comet.KMeans(vecs, k, dist, mi)
		}
		if sub {
			dist, _ = comet.NewDistance(comet.L2Squared)
			kind = comet.L2Squared
		}
		if kind == comet.Cosine {
			// cosine k-means in comet runs on raw vectors; keep them non-zero
			for _, v := range vecs {
				z := true
				for _, x := range v {
					if x != 0 {
						z = false
					}
				}
				if z {
					v[0] = 1
				}
			}
		}
		v0 := clone2D(vecs)
		wit := func() any {
			w := map[string]any{"n": n, "dim": dim, "k": k, "maxIter": maxIter, "kind": kind, "subspace": sub}
			if n*dim <= 64 {
				w["vectors"] = v0
			}
			return w
		}
		fail := func(sig, what string) { r.ViolationAt("kmeans", i, sig, what, wit()) }
		if r.WantSample() && i%400 == 5 && n*dim <= 64 {
			r.Sample(wit())
		}
		c1, m1 := run(maxIter)
		if !same2D(vecs, v0) {
			fail("kmeans.mutates-input", "k-means modified its input vectors")
			vecs = clone2D(v0)
		}
		c2, m2 := run(maxIter)
		wantK := k
		if wantK > n {
			wantK = n
		}
		if k <= 0 {
			if len(c1) != 0 || len(m1) != 0 {
				fail("kmeans.nonpositive-k", fmt.Sprintf("k=%d returned %d centroids", k, len(c1)))
			}
			r.Count("kmeans:k<=0", 1)
			r.Eval(false, ev.Digest("km", i))
			return
		}
		if len(c1) != wantK {
			fail("kmeans.centroid-count", fmt.Sprintf("got %d centroids, want min(k,n)=%d", len(c1), wantK))
			return
		}
		if len(m1) != n {
			fail("kmeans.mapping-length", fmt.Sprintf("mapping has %d entries for %d vectors", len(m1), n))
			return
		}
		if !same2D(c1, c2) || fmt.Sprint(m1) != fmt.Sprint(m2) {
			fail("kmeans.nondeterministic", "two runs on identical input differ")
		}
		// bounding box
		lo, hi := make([]float64, dim), make([]float64, dim)
		for j := 0; j < dim; j++ {
			lo[j], hi[j] = math.Inf(1), math.Inf(-1)
		}
		for _, v := range v0 {
			for j, x := range v {
				lo[j] = math.Min(lo[j], float64(x))
				hi[j] = math.Max(hi[j], float64(x))
			}
		}
		for ci, c := range c1 {
			if len(c) != dim {
				fail("kmeans.centroid-dim", fmt.Sprintf("centroid %d has dim %d", ci, len(c)))
				return
			}
			for j, x := range c {
				fx := float64(x)
				if math.IsNaN(fx) || math.IsInf(fx, 0) {
					fail("kmeans.nonfinite", fmt.Sprintf("centroid %d[%d]=%g", ci, j, x))
					continue
				}
				if kind != comet.Cosine {
					slack := float64(n+4) * eps32 * math.Max(math.Abs(lo[j]), math.Abs(hi[j]))
					if fx < lo[j]-slack || fx > hi[j]+slack {
						fail("kmeans.outside-bounding-box", fmt.Sprintf("centroid %d[%d]=%g outside [%g,%g]", ci, j, x, lo[j], hi[j]))
					}
				}
			}
		}
		for vi, a := range m1 {
			if a < 0 || a >= len(c1) {
				fail("kmeans.assignment-range", fmt.Sprintf("vector %d assigned to %d of %d", vi, a, len(c1)))
				return
			}
		}
		// observational convergence
		eff := maxIter
		if eff <= 0 {
			eff = comet.DefaultMaxIter
		}
		c3, m3 := run(eff + 1)
		// converged := centroids AND mapping unchanged by one more iteration. (Equal centroids after +50
		// iterations would also accept period-2 oscillations, which cosine k-means on raw vectors does show;
		// and the mapping of a run that stopped at maxIter was computed against the centroids before the
		// last update, so equal centroids alone are not enough.) c(m)==c(m+1) means iteration m+1 left the
		// centroids unchanged, so iteration m+2 would see no assignment change: a genuine fixpoint, and
		// mapping(m+1) (== mapping(m) by the second conjunct) is nearest w.r.t. it.
		converged := same2D(c1, c3) && fmt.Sprint(m1) == fmt.Sprint(m3)
		if converged {
			r.Count("kmeans:converged", 1)
			for vi, a := range m1 {
				da := dist.Calculate(v0[vi], c1[a])
				for ci := range c1 {
					if d := dist.Calculate(v0[vi], c1[ci]); d < da {
						fail("kmeans.not-nearest", fmt.Sprintf("converged run: vector %d assigned to %d (d=%g) but centroid %d is nearer (d=%g)", vi, a, da, ci, d))
						break
					}
				}
			}
		} else {
			r.Count("kmeans:not-converged", 1)
		}
		// FindNearestCentroidIndex
		for t := 0; t < 4; t++ {
			q := v0[rng.IntN(n)]
			if t%2 == 1 {
				q = make([]float32, dim)
				for j := range q {
					q[j] = float32(rng.NormFloat64() * 3)
				}
				if kind == comet.Cosine {
					q[0] += 1
				}
			}
			idx := comet.FindNearestCentroidIndex(q, c1, dist)
			if idx < 0 || idx >= len(c1) {
				fail("nearest-centroid.range", fmt.Sprintf("FindNearestCentroidIndex returned %d of %d", idx, len(c1)))
				continue
			}
			di := dist.Calculate(q, c1[idx])
			for ci := range c1 {
				if d := dist.Calculate(q, c1[ci]); d < di {
					fail("nearest-centroid.not-nearest", fmt.Sprintf("FindNearestCentroidIndex=%d (d=%g) but %d is nearer (d=%g)", idx, di, ci, d))
					break
				}
			}
		}
		r.Count("kmeans-runs", 1)
		r.Eval(k >= 2 && n >= 2, ev.Digest("km", n, dim, k, maxIter, kind, sub, v0[0]))
	})

	// ---------------- quantisers ----------------
	nq := r.Pick(20000, 600000)
	r.CasesParallel("quantizer", nq, 16, func(i int, rng *rand.Rand) {
		dim := 1 + rng.IntN(48)
		scale := math.Pow(10, rng.Float64()*8-4) // 1e-4 .. 1e4 -> inside the float16 normal range for most draws
		v := make([]float32, dim)
		for j := range v {
			switch rng.IntN(6) {
			case 0:
				v[j] = 0
			case 1:
				v[j] = float32(scale)
			case 2:
				v[j] = float32(-scale)
			default:
				v[j] = float32(rng.NormFloat64() * scale)
			}
		}
		v0 := cloneF32(v)
		wit := func() any { return map[string]any{"vector": v0} }
		fail := func(sig, what string) { r.ViolationAt("quantizer", i, sig, what, wit()) }
		if r.WantSample() && i%5000 == 11 {
			r.Sample(wit())
		}
		// float32
		fq, err := comet.NewQuantizer(comet.FullPrecision)
		if err != nil || !fq.IsTrained() || fq.Type() != comet.FullPrecision {
			fail("quant.f32.constructor", "float32 quantizer constructor")
		} else {
			st, err := fq.Quantize(v)
			if err != nil {
				fail("quant.f32.error", err.Error())
			} else {
				back, err := fq.Dequantize(st)
				if err != nil || !sameBits(back, v0) {
					fail("quant.f32.not-exact", "float32 quantizer does not reconstruct exactly")
				}
				if len(back) > 0 {
					back[0]++
					if b2, _ := fq.Dequantize(st); !sameBits(b2, v0) {
						fail("quant.f32.aliasing", "Dequantize result aliases the stored form")
					}
				}
			}
			if !sameBits(v, v0) {
				fail("quant.f32.mutates-input", "float32 quantizer modified its input")
			}
		}
		// float16
		hq, err := comet.NewQuantizer(comet.HalfPrecision)
		if err != nil || !hq.IsTrained() || hq.Type() != comet.HalfPrecision {
			fail("quant.f16.constructor", "float16 quantizer constructor")
		} else {
			st, err := hq.Quantize(v)
			if err != nil {
				fail("quant.f16.error", err.Error())
			} else {
				back, err := hq.Dequantize(st)
				if err != nil || len(back) != dim {
					fail("quant.f16.length", "float16 quantizer changed the length or failed")
				} else {
					for j, x := range v0 {
						ax := math.Abs(float64(x))
						if ax >= 6.103515625e-05 && ax <= 65504 {
							if e := math.Abs(float64(back[j]) - float64(x)); e > ax/2048 {
								fail("quant.f16.precision", fmt.Sprintf("component %d: %g -> %g (rel err %g > 2^-11)", j, x, back[j], e/ax))
								break
							}
							r.Count("f16-components-in-normal-range", 1)
						} else if x == 0 && back[j] != 0 {
							fail("quant.f16.zero", "0 not reconstructed as 0")
						}
					}
				}
			}
			if !sameBits(v, v0) {
				fail("quant.f16.mutates-input", "float16 quantizer modified its input")
			}
		}
		// two reconstructions from one quantiser must be independent of each other
		if hq2, err := comet.NewQuantizer(comet.HalfPrecision); err == nil {
			other := make([]float32, dim)
			for j := range other {
				other[j] = float32(rng.NormFloat64()*scale) + 1
			}
			s1, e1 := hq2.Quantize(v)
			s2, e2 := hq2.Quantize(other)
			if e1 == nil && e2 == nil {
				r1, _ := hq2.Dequantize(s1)
				keep := cloneF32(r1)
				hq2.Dequantize(s2)
				if !sameBits(r1, keep) {
					fail("quant.f16.result-aliasing", "an earlier Dequantize result changed when another vector was dequantized")
				}
			}
		}
		// int8
		iq, err := comet.NewQuantizer(comet.Int8Precision)
		if err != nil || iq.Type() != comet.Int8Precision {
			fail("quant.i8.constructor", "int8 quantizer constructor")
			return
		}
		if iq.IsTrained() {
			fail("quant.i8.trained-before-training", "int8 quantizer claims to be trained before Train")
		}
		if _, err := iq.Quantize(v); err == nil {
			fail("quant.i8.works-untrained", "int8 Quantize worked before training")
		}
		if _, err := iq.Dequantize(make([]int8, dim)); err == nil {
			fail("quant.i8.works-untrained", "int8 Dequantize worked before training")
		}
		// training set: v plus a few others with smaller or larger magnitude
		train := [][]float32{v}
		for t := 0; t < rng.IntN(4); t++ {
			o := make([]float32, dim)
			f := rng.Float64() * 2
			for j := range o {
				o[j] = float32(rng.NormFloat64() * scale * f)
			}
			train = append(train, o)
		}
		t0 := clone2D(train)
		if i%3 == 0 {
			// the same quantiser object was trained before, on a much WIDER range: the second Train replaces the range
			// (everything below is judged against the range of the last training set, as for a fresh quantiser)
			wide := make([]float32, dim)
			f := float32(10 + rng.Float64()*990)
			for j := range wide {
				wide[j] = v[j] * f
			}
			wide[rng.IntN(dim)] = float32(scale) * f
			iq.Train([][]float32{wide})
			r.Count("i8-retrained-on-a-narrower-range", 1)
		}
		iq.Train(train)
		if !same2D(train, t0) {
			fail("quant.i8.train-mutates-input", "int8 Train modified the training vectors")
		}
		absMax := 0.0
		for _, tv := range t0 {
			for _, x := range tv {
				absMax = math.Max(absMax, math.Abs(float64(x)))
			}
		}
		if absMax == 0 {
			if iq.IsTrained() {
				if _, err := iq.Quantize(v); err == nil {
					r.Count("i8-all-zero-training", 1)
				}
			}
			r.Eval(false, ev.Digest("q", i))
			return
		}
		if !iq.IsTrained() {
			fail("quant.i8.not-trained-after-train", "int8 quantizer not trained after Train on non-zero data")
			return
		}
		// quantise v and another vector inside +-absMax
		w := make([]float32, dim)
		for j := range w {
			w[j] = float32((rng.Float64()*2 - 1) * absMax)
			if rng.IntN(8) == 0 {
				w[j] = float32(absMax)
			}
			if rng.IntN(8) == 0 {
				w[j] = float32(-absMax)
			}
		}
		if sa, ea := iq.Quantize(v); ea == nil {
			if sb, eb := iq.Quantize(w); eb == nil {
				r1, _ := iq.Dequantize(sa)
				keep := cloneF32(r1)
				iq.Dequantize(sb)
				if !sameBits(r1, keep) {
					fail("quant.i8.result-aliasing", "an earlier Dequantize result changed when another vector was dequantized")
				}
			}
		}
		// ... and one with components strictly OUTSIDE the trained range (whatever such a component is stored as — only
		// in-range components carry the precision promise — the caller's vector stays as it was)
		out := cloneF32(w)
		for j := range out {
			if rng.IntN(2) == 0 {
				out[j] = float32((1.25 + rng.Float64()*6) * absMax * float64(1-2*rng.IntN(2)))
			}
		}
		for xi, x := range [][]float32{v, w, out} {
			x0 := cloneF32(x)
			st, err := iq.Quantize(x)
			if err != nil {
				if xi == 2 {
					r.Count("i8-out-of-range-vector-refused", 1)
					if !sameBits(x, x0) {
						fail("quant.i8.mutates-input", "int8 quantizer modified an input it refused")
					}
					continue
				}
				fail("quant.i8.error", err.Error())
				continue
			}
			if xi == 2 {
				r.Count("i8-out-of-range-vector-quantised", 1)
			}
			if !sameBits(x, x0) {
				fail("quant.i8.mutates-input", "int8 quantizer modified its input")
			}
			back, err := iq.Dequantize(st)
			if err != nil || len(back) != dim {
				fail("quant.i8.length", "int8 quantizer changed the length or failed")
				continue
			}
			for j := range x0 {
				fx := float64(x0[j])
				if math.Abs(fx) > absMax {
					continue
				}
				bound := absMax/254 + 8*eps32*absMax
				if e := math.Abs(float64(back[j]) - fx); e > bound {
					fail("quant.i8.precision", fmt.Sprintf("component %d: %g -> %g (err %g > absMax/254=%g)", j, x0[j], back[j], e, absMax/254))
					break
				}
				r.Count("i8-components-in-range", 1)
			}
		}
		// extreme but finite trained ranges (the bound absMax/254 is relative to the range, whatever its magnitude)
		if i%8 == 0 {
			big := []float64{1e-30, 1e-20, 1e20, 1e30, 1e36, 1e37, 1e38, 3e38}[rng.IntN(8)]
			xq, _ := comet.NewQuantizer(comet.Int8Precision)
			tv := make([]float32, dim)
			for j := range tv {
				tv[j] = float32((rng.Float64()*2 - 1) * big)
			}
			tv[rng.IntN(dim)] = float32(big)
			xq.Train([][]float32{tv})
			am := 0.0
			for _, x := range tv {
				am = math.Max(am, math.Abs(float64(x)))
			}
			if st, err := xq.Quantize(tv); err != nil {
				fail("quant.i8.error", fmt.Sprintf("trained range %g: %v", am, err))
			} else if back, err := xq.Dequantize(st); err != nil || len(back) != dim {
				fail("quant.i8.length", fmt.Sprintf("trained range %g: Dequantize failed or changed the length", am))
			} else {
				for j := range tv {
					e := math.Abs(float64(back[j]) - float64(tv[j]))
					if !(e <= am/254+8*eps32*am) { // also catches NaN / Inf
						fail("quant.i8.precision", fmt.Sprintf("trained range %g: component %d: %g -> %g (err %g > absMax/254=%g)", am, j, tv[j], back[j], e, am/254))
						break
					}
				}
				r.Count("i8-extreme-range-vectors", 1)
			}
		}
		// the persisted-range path: a fresh quantiser given the same absMax through SetAbsMax (documented
		// "for deserialization"), and a trained one re-ranged through SetAbsMax, must behave like a
		// quantiser trained to that range.
		if tq, ok := iq.(*comet.Int8Quantizer); ok {
			am := tq.GetAbsMax()
			if math.Abs(float64(am)-absMax) > 0 {
				fail("quant.i8.absmax", fmt.Sprintf("GetAbsMax=%g, training data has absMax %g", am, absMax))
			}
			fresh := &comet.Int8Quantizer{}
			fresh.SetAbsMax(am)
			other := &comet.Int8Quantizer{}
			other.Train([][]float32{{float32(absMax * (0.1 + 5*rng.Float64()))}})
			other.SetAbsMax(am)
			for name, q2 := range map[string]*comet.Int8Quantizer{"fresh+SetAbsMax": fresh, "trained+SetAbsMax": other} {
				if !q2.IsTrained() {
					fail("quant.i8.setabsmax-not-trained", name+": not trained after SetAbsMax(>0)")
					continue
				}
				st, err := q2.Quantize(w)
				if err != nil {
					fail("quant.i8.error", name+": "+err.Error())
					continue
				}
				back, err := q2.Dequantize(st)
				if err != nil || len(back) != dim {
					fail("quant.i8.length", name+": changed the length or failed")
					continue
				}
				for j := range w {
					bound := absMax/254 + 8*eps32*absMax
					if e := math.Abs(float64(back[j]) - float64(w[j])); e > bound {
						fail("quant.i8.precision-after-setabsmax", fmt.Sprintf("%s: component %d: %g -> %g (err %g > absMax/254=%g)", name, j, w[j], back[j], e, absMax/254))
						break
					}
				}
				r.Count("i8-setabsmax-roundtrips", 1)
			}
		}
		nz := false
		for _, x := range v0 {
			if x != 0 {
				nz = true
			}
		}
		r.Eval(nz, ev.Digest("q", v0))
	})
	if _, err := comet.NewQuantizer("nope"); err == nil {
		r.ViolationAt("quantizer", 0, "quant.constructor", "unknown quantizer type accepted", nil)
	}

	// ---------------- training twice gives search-identical indexes ----------------
	nt := r.Pick(90, 1500)
	r.CasesParallel("train-twice", nt, 16, func(i int, rng *rand.Rand) {
		which := i % 3
		kind := kinds[rng.IntN(3)]
		var dim, nTrain int
		var mk func() (comet.VectorIndex, error)
		var desc string
		switch which {
		case 0:
			dim = 1 + rng.IntN(16)
			nlist := 1 + rng.IntN(8)
			nTrain = nlist + rng.IntN(120)
			if rng.IntN(4) == 0 {
				nTrain = nlist // exactly one training vector per cluster
			}
			mk = func() (comet.VectorIndex, error) { return comet.NewIVFIndex(dim, nlist, kind) }
			desc = fmt.Sprintf("ivf dim=%d nlist=%d %s n=%d", dim, nlist, kind, nTrain)
		case 1:
			m := []int{1, 2, 4}[rng.IntN(3)]
			dim = m * (1 + rng.IntN(4))
			nbits := 1 + rng.IntN(5)
			nTrain = (1 << nbits) + rng.IntN(100)
			mk = func() (comet.VectorIndex, error) { return comet.NewPQIndex(dim, kind, m, nbits) }
			desc = fmt.Sprintf("pq dim=%d M=%d nbits=%d %s n=%d", dim, m, nbits, kind, nTrain)
		case 2:
			m := []int{1, 2, 4}[rng.IntN(3)]
			dim = m * (1 + rng.IntN(4))
			nbits := 1 + rng.IntN(4)
			nlist := 1 + rng.IntN(4)
			nTrain = max(nlist*10, 1<<nbits) + rng.IntN(80)
			mk = func() (comet.VectorIndex, error) { return comet.NewIVFPQIndex(dim, kind, nlist, m, nbits) }
			desc = fmt.Sprintf("ivfpq dim=%d nlist=%d M=%d nbits=%d %s n=%d", dim, nlist, m, nbits, kind, nTrain)
		}
		train := genTrainingSet(rng, nTrain, dim)
		for _, v := range train {
			z := true
			for _, x := range v {
				if x != 0 {
					z = false
				}
			}
			if z {
				v[0] = 1
			}
		}
		fail := func(sig, what string) { r.ViolationAt("train-twice", i, sig, what, map[string]any{"config": desc}) }
		build := func(reuseBuffers bool) comet.VectorIndex {
			idx, err := mk()
			if err != nil {
				fail("train-twice.constructor", err.Error())
				return nil
			}
			nodes := make([]comet.VectorNode, len(train))
			for j, v := range train {
				nodes[j] = *comet.NewVectorNodeWithID(uint32(j+1), cloneF32(v))
			}
			if reuseBuffers {
				// this index has a training HISTORY: it was trained before, on other data (or on the same data), and is
				// now trained on D; the other index sees D only. Training replaces what was there: search-identical.
				switch i % 3 {
				case 0:
					other := make([]comet.VectorNode, len(train))
					for j := range train {
						w := cloneF32(train[(j*7+3)%len(train)])
						for x := range w {
							w[x] = w[x]*3 + float32(x+1)
						}
						other[j] = *comet.NewVectorNodeWithID(uint32(j+1), w)
					}
					idx.Train(other)
				case 1:
					first := make([]comet.VectorNode, len(train))
					for j, v := range train {
						first[j] = *comet.NewVectorNodeWithID(uint32(j+1), cloneF32(v))
					}
					idx.Train(first)
				}
			}
			if err := idx.Train(nodes); err != nil {
				fail("train-twice.train-error", err.Error())
				return nil
			}
			if reuseBuffers {
				scribbleOver(nodes) // this caller reuses its training buffers; the other one keeps them: same index
			}
			for j, v := range train {
				if j%2 == 0 {
					if err := idx.Add(*comet.NewVectorNodeWithID(uint32(1000+j), cloneF32(v))); err != nil {
						fail("train-twice.add-error", err.Error())
						return nil
					}
				}
			}
			return idx
		}
		a, b := build(false), build(true)
		if a == nil || b == nil {
			return
		}
		probes := 0
		for t := 0; t < 6; t++ {
			q := cloneF32(train[rng.IntN(len(train))])
			if t%2 == 0 {
				for j := range q {
					q[j] += float32(rng.NormFloat64())
				}
				q[0] += 0.5
			}
			k := []int{1, 3, 10, 0}[rng.IntN(4)]
			np := rng.IntN(6) - 1
			ra, ea := a.NewSearch().WithQuery(cloneF32(q)).WithK(k).WithNProbes(np).Execute()
			rb, eb := b.NewSearch().WithQuery(cloneF32(q)).WithK(k).WithNProbes(np).Execute()
			if (ea == nil) != (eb == nil) {
				fail("train-twice.error-differs", fmt.Sprintf("%v vs %v", ea, eb))
				continue
			}
			if len(ra) != len(rb) {
				fail("train-twice.results-differ", fmt.Sprintf("%s: %d vs %d results", desc, len(ra), len(rb)))
				continue
			}
			for j := range ra {
				if math.Float32bits(ra[j].Score) != math.Float32bits(rb[j].Score) {
					fail("train-twice.results-differ", fmt.Sprintf("%s: rank %d score %g vs %g", desc, j, ra[j].Score, rb[j].Score))
					break
				}
				if ra[j].GetId() != rb[j].GetId() {
					// identical scores may be ordered differently only inside a tie
					tie := (j > 0 && ra[j-1].Score == ra[j].Score) || (j+1 < len(ra) && ra[j+1].Score == ra[j].Score)
					if !tie {
						fail("train-twice.results-differ", fmt.Sprintf("%s: rank %d id %d vs %d", desc, j, ra[j].GetId(), rb[j].GetId()))
						break
					}
				}
			}
			probes++
		}
		r.Count("train-twice-probes", int64(probes))
		r.Count("train-twice:"+[]string{"ivf", "pq", "ivfpq"}[which], 1)
		r.Eval(true, ev.Digest("tt", desc, train[0]))
	})
}
