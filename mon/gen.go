package mon

import (
	"math"
	"math/rand/v2"

	"github.com/wizenheimer/comet"
)

// ---------------------------------------------------------------------------
// shared generators (DESIGN §3.1)
// ---------------------------------------------------------------------------

var allMetrics = []comet.DistanceKind{comet.Euclidean, comet.L2Squared, comet.Cosine}

// idGen hands out distinct non-zero ids, sparse over [1, 2^32) and clustered around
// roaring container boundaries (multiples of 65536).
type idGen struct {
	used map[uint32]bool
	rng  *rand.Rand
	min  uint32 // ids below min are never handed out (kept clear of comet's auto-generated ids)
}

func newIDGen(rng *rand.Rand) *idGen { return &idGen{used: map[uint32]bool{}, rng: rng} }

func (g *idGen) next() uint32 {
	for {
		var id uint32
		switch g.rng.IntN(5) {
		case 0:
			id = uint32(1 + g.rng.IntN(50))
		case 1:
			id = uint32(65536*(1+g.rng.IntN(3)) + g.rng.IntN(5) - 2)
		case 2:
			id = uint32(g.rng.Uint32())
		case 3:
			id = uint32(1 + g.rng.IntN(100000))
		default:
			id = math.MaxUint32 - uint32(g.rng.IntN(4))
		}
		if id != 0 && id >= g.min && !g.used[id] {
			g.used[id] = true
			return id
		}
	}
}

// absent returns a non-zero id that next() has never returned and never will.
func (g *idGen) absent() uint32 {
	for {
		id := uint32(1 + g.rng.IntN(1<<30))
		if id >= g.min && !g.used[id] {
			g.used[id] = true // reserve: never handed out as a real id
			return id
		}
	}
}

// vecGen produces vectors of one dimension with a per-case mixture of shapes; it remembers what it
// produced so that later draws can be duplicates, near duplicates or positive rescalings.
type vecGen struct {
	rng  *rand.Rand
	dim  int
	pool [][]float32
	mode int
}

func newVecGen(rng *rand.Rand, dim int) *vecGen {
	return &vecGen{rng: rng, dim: dim, mode: rng.IntN(4)}
}

func (g *vecGen) fresh() []float32 {
	v := make([]float32, g.dim)
	shape := g.rng.IntN(10)
	if g.mode == 1 { // lattice-heavy case: many exact ties
		shape = 3
	}
	switch {
	case shape <= 2: // gaussian
		for i := range v {
			v[i] = float32(g.rng.NormFloat64() * 3)
		}
	case shape == 3: // small-integer lattice (a zero component is, now and then, a NEGATIVE zero)
		for i := range v {
			v[i] = float32(g.rng.IntN(5) - 2)
			if v[i] == 0 && g.rng.IntN(4) == 0 {
				v[i] = float32(math.Copysign(0, -1))
			}
		}
	case shape == 4 && len(g.pool) > 0: // exact duplicate
		copy(v, g.pool[g.rng.IntN(len(g.pool))])
	case shape == 5 && len(g.pool) > 0: // near duplicate
		src := g.pool[g.rng.IntN(len(g.pool))]
		if g.rng.IntN(2) == 0 {
			// the same vector with ONE component edited (two documents that differ in a single coordinate)
			copy(v, src)
			v[g.rng.IntN(g.dim)] += float32(1 + g.rng.IntN(4))
			break
		}
		for i := range v {
			v[i] = src[i] * (1 + 1e-6)
		}
	case shape == 6 && len(g.pool) > 0: // positive rescaling (cosine tie)
		src := g.pool[g.rng.IntN(len(g.pool))]
		s := float32([]float64{0.5, 2, 3, 0.25}[g.rng.IntN(4)])
		for i := range v {
			v[i] = src[i] * s
		}
	case shape == 7: // axis / one-hot
		v[g.rng.IntN(g.dim)] = float32(1 + g.rng.IntN(3))
	case shape == 8: // all-equal components
		c := float32(g.rng.IntN(7) - 3)
		for i := range v {
			v[i] = c
		}
	default:
		for i := range v {
			v[i] = float32(g.rng.Float64()*20 - 10)
		}
	}
	zero := true
	for _, x := range v {
		if x != 0 {
			zero = false
		}
	}
	if zero {
		v[g.rng.IntN(g.dim)] = 1
	}
	if g.rng.IntN(12) == 0 {
		// ALMOST unit length (an embedding that was normalised in float16, or by another library): |v| = 1 +- 1e-3
		n := 0.0
		for _, x := range v {
			n += float64(x) * float64(x)
		}
		n = math.Sqrt(n)
		f := (1 + []float64{8e-4, -8e-4, 3e-4, -3e-4, 1e-4, 1e-5}[g.rng.IntN(6)]) / n
		for i := range v {
			v[i] = float32(float64(v[i]) * f)
		}
	}
	g.pool = append(g.pool, cloneF32(v))
	return v
}

// query returns a query vector: random, equal to a stored one, a scaled copy, or far away.
func (g *vecGen) query() []float32 {
	switch g.rng.IntN(5) {
	case 0:
		if len(g.pool) > 0 {
			return cloneF32(g.pool[g.rng.IntN(len(g.pool))])
		}
	case 1:
		if len(g.pool) > 0 {
			src := g.pool[g.rng.IntN(len(g.pool))]
			v := make([]float32, g.dim)
			for i := range v {
				v[i] = src[i] * 3
			}
			return v
		}
	case 2:
		v := make([]float32, g.dim)
		for i := range v {
			v[i] = float32(100 + g.rng.NormFloat64())
		}
		return v
	}
	keep := g.pool
	v := g.fresh()
	g.pool = keep
	return v
}

func pickDim(rng *rand.Rand, choices []int) int { return choices[rng.IntN(len(choices))] }
