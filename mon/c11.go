package mon

import (
	"bufio"
	"fmt"
	"io"
	"math/rand/v2"
	"os"
	"path/filepath"
	"runtime"
	"runtime/debug"
	"sort"
	"strings"
	"sync"
	"sync/atomic"
	"time"

	"github.com/wizenheimer/comet"

	"verif/internal/ev"
	"verif/internal/hist"
)

func init() { register("C11", "exploration", runC11) }

// concSUT is one shared instance under concurrent use.
type concSUT struct {
	name               string
	add                func(id uint32, rng *rand.Rand) error
	remove             func(id uint32) error
	searchAll          func() (map[uint32]bool, error)
	searchRestricted   func(ids []uint32) (map[uint32]bool, error)
	flush              func() error
	writeTo            func() error
	extra              func(rng *rand.Rand)
	close              func()
	removeErrAnyState  bool
	removeOKWhenAbsent bool
	maxAdds            int
}

var concKinds = []string{"flat", "hnsw", "ivf", "pq", "ivfpq", "bm25", "metadata", "hybrid", "store"}

func vecToSet(res []comet.VectorResult) map[uint32]bool {
	m := map[uint32]bool{}
	for _, x := range res {
		m[x.GetId()] = true
	}
	return m
}

func newConcSUT(kind string, rng *rand.Rand) (*concSUT, error) {
	s := &concSUT{name: kind, maxAdds: 40, extra: func(*rand.Rand) {}, close: func() {}}
	dim := 4
	metric := allMetrics[rng.IntN(3)]
	genVec := func(rng *rand.Rand) []float32 {
		v := make([]float32, dim)
		for i := range v {
			v[i] = float32(rng.NormFloat64())
		}
		v[0] += 0.5
		return v
	}
	switch kind {
	case "flat", "hnsw", "ivf", "pq", "ivfpq":
		var idx comet.VectorIndex
		var err error
		nlist := 0
		switch kind {
		case "flat":
			idx, err = comet.NewFlatIndex(dim, metric)
		case "hnsw":
			idx, err = comet.NewHNSWIndex(dim, metric, 16, 64, 64)
			s.maxAdds = 32 // exact regime: at most 2*M resident vectors
			h := idx.(*comet.HNSWIndex)
			s.extra = func(rng *rand.Rand) { h.SetEfSearch(64 + rng.IntN(64)) }
		case "ivf":
			nlist = 3
			idx, err = comet.NewIVFIndex(dim, nlist, metric)
		case "pq":
			idx, err = comet.NewPQIndex(dim, metric, 2, 3)
		case "ivfpq":
			nlist = 2
			idx, err = comet.NewIVFPQIndex(dim, metric, nlist, 2, 3)
		}
		if err != nil {
			return nil, err
		}
		if kind == "ivf" || kind == "pq" || kind == "ivfpq" {
			train := make([]comet.VectorNode, 40)
			for i := range train {
				train[i] = *comet.NewVectorNodeWithID(uint32(i+1), genVec(rng))
			}
			if err := idx.Train(train); err != nil {
				return nil, err
			}
		}
		q := genVec(rng)
		search := func() comet.VectorSearch {
			x := idx.NewSearch().WithQuery(cloneF32(q)).WithK(0)
			if nlist > 0 {
				x = x.WithNProbes(nlist)
			}
			if kind == "hnsw" {
				x = x.WithEfSearch(1000)
			}
			return x
		}
		s.add = func(id uint32, rng *rand.Rand) error { return idx.Add(*comet.NewVectorNodeWithID(id, genVec(rng))) }
		s.remove = func(id uint32) error { return idx.Remove(*comet.NewVectorNodeWithID(id, nil)) }
		s.searchAll = func() (map[uint32]bool, error) {
			res, err := search().Execute()
			return vecToSet(res), err
		}
		s.searchRestricted = func(ids []uint32) (map[uint32]bool, error) {
			res, err := search().WithDocumentIDs(ids...).Execute()
			return vecToSet(res), err
		}
		s.flush = idx.Flush
		s.writeTo = func() error { _, err := idx.WriteTo(io.Discard); return err }
	case "bm25":
		idx := comet.NewBM25SearchIndex()
		s.removeOKWhenAbsent = true
		s.add = func(id uint32, rng *rand.Rand) error {
			return idx.Add(id, fmt.Sprintf("common w%d w%d", rng.IntN(5), rng.IntN(5)))
		}
		s.remove = idx.Remove
		toSet := func(res []comet.TextResult) map[uint32]bool {
			m := map[uint32]bool{}
			for _, x := range res {
				m[x.Id] = true
			}
			return m
		}
		s.searchAll = func() (map[uint32]bool, error) {
			res, err := idx.NewSearch().WithQuery("common").WithK(0).Execute()
			return toSet(res), err
		}
		s.searchRestricted = func(ids []uint32) (map[uint32]bool, error) {
			res, err := idx.NewSearch().WithQuery("common").WithK(0).WithDocumentIDs(ids...).Execute()
			return toSet(res), err
		}
		s.flush = idx.Flush
		s.writeTo = func() error { _, err := idx.WriteTo(io.Discard); return err }
	case "metadata":
		idx := comet.NewRoaringMetadataIndex()
		s.removeOKWhenAbsent = true
		s.add = func(id uint32, rng *rand.Rand) error {
			return idx.Add(*comet.NewMetadataNodeWithID(id, map[string]any{"kind": "doc", "n": rng.IntN(7) - 3}))
		}
		s.remove = func(id uint32) error { return idx.Remove(*comet.NewMetadataNodeWithID(id, nil)) }
		// every one of these filters matches every document (n is always present, in -3..3): categorical and numeric
		// read paths take turns, so state that a read-only numeric search corrupts is seen by the visibility oracle
		allMatching := []comet.Filter{comet.Eq("kind", "doc"), comet.Gte("n", -3), comet.Exists("n"), comet.Lte("n", 3), comet.Range("n", -3, 3), comet.Ne("n", 99)}
		var turn atomic.Int64
		s.searchAll = func() (map[uint32]bool, error) {
			f := allMatching[int(turn.Add(1))%len(allMatching)]
			res, err := idx.NewSearch().WithFilters(f).Execute()
			return idsOfMeta(res), err
		}
		// complement-style and other read-only searches beside everything else (results not judged here: C04 does that)
		various := []comet.Filter{comet.Ne("n", 0), comet.Not(comet.Range("n", -1, 1)), comet.NotExists("n"), comet.Not(comet.Eq("kind", "x")), comet.Lt("n", 0), comet.NotIn("kind", "doc"), comet.Not(comet.Exists("n"))}
		s.extra = func(rng *rand.Rand) {
			idx.NewSearch().WithFilters(various[rng.IntN(len(various))]).Execute()
		}
		s.searchRestricted = func(ids []uint32) (map[uint32]bool, error) {
			res, err := idx.NewSearch().WithFilters(comet.Gte("n", -1)).Execute()
			m := idsOfMeta(res)
			allowed := map[uint32]bool{}
			for _, id := range ids {
				allowed[id] = true
			}
			for id := range m {
				if !allowed[id] {
					delete(m, id)
				}
			}
			return m, err
		}
		s.flush = idx.Flush
		s.writeTo = func() error { _, err := idx.WriteTo(io.Discard); return err }
	case "hybrid", "store":
		var h comet.HybridSearchIndex
		p := storeParams{VecKind: "flat", Text: true, Meta: true, Dim: dim, Metric: metric, CompactionThreshold: 1000,
			MemtableSizeLimit: int64(400 + rng.IntN(1500)), FlushThreshold: int64(1500 + rng.IntN(3000))}
		if kind == "hybrid" {
			sut, err := newHybridSUT(true, true, true, dim, metric)
			if err != nil {
				return nil, err
			}
			h = sut.idx
			s.writeTo = func() error { return h.WriteTo(io.Discard, io.Discard, io.Discard, io.Discard) }
		} else {
			dir, err := os.MkdirTemp("", "verif-c11-*")
			if err != nil {
				return nil, err
			}
			st, err := p.open(dir)
			if err != nil {
				os.RemoveAll(dir)
				return nil, err
			}
			h = st
			s.removeErrAnyState = true
			s.writeTo = func() error { st.VerifEvictAllCaches(); return nil }
			s.extra = func(rng *rand.Rand) { st.VerifRotate() }
			s.close = func() { st.Close(); os.RemoveAll(dir) }
			s.maxAdds = 60
		}
		s.add = func(id uint32, rng *rand.Rand) error {
			return h.AddWithID(id, genVec(rng), fmt.Sprintf("common w%d", rng.IntN(5)), map[string]any{"kind": "doc", "n": rng.IntN(7) - 3})
		}
		s.remove = h.Remove
		toSet := func(res []comet.HybridSearchResult) map[uint32]bool {
			m := map[uint32]bool{}
			for _, x := range res {
				m[x.ID] = true
			}
			return m
		}
		which := rng.IntN(3)
		q := genVec(rng)
		s.searchAll = func() (map[uint32]bool, error) {
			x := h.NewSearch().WithK(bigK)
			switch which {
			case 0:
				x = x.WithText("common")
			case 1:
				x = x.WithVector(cloneF32(q))
			default:
				x = x.WithMetadata(comet.Eq("kind", "doc"))
			}
			res, err := x.Execute()
			return toSet(res), err
		}
		s.searchRestricted = func(ids []uint32) (map[uint32]bool, error) {
			// a filtered hybrid query drives the pooled document filters of the sub-indexes
			res, err := h.NewSearch().WithK(bigK).WithVector(cloneF32(q)).WithText("common").WithMetadata(comet.Gte("n", 0)).Execute()
			return toSet(res), err
		}
		// complement-style metadata filters through the hybrid / store search, beside everything else
		variousH := []comet.Filter{comet.Ne("n", 0), comet.Not(comet.Range("n", -1, 1)), comet.NotExists("n"), comet.Lt("n", 0), comet.Not(comet.Eq("kind", "x"))}
		prevExtra := s.extra
		s.extra = func(rng *rand.Rand) {
			if rng.IntN(2) == 0 {
				prevExtra(rng)
				return
			}
			h.NewSearch().WithK(5).WithMetadata(variousH[rng.IntN(len(variousH))]).Execute()
		}
		s.flush = h.Flush
	}
	return s, nil
}

// goroutineDumpShowsCometDeadlock: every goroutine that is inside comet frames is parked on a sync primitive.
func init() { ev.DeadlockClassifier = goroutineDumpShowsCometDeadlock }

func goroutineDumpShowsCometDeadlock(dump string) bool {
	blocks := strings.Split(dump, "\n\n")
	inComet, parked := 0, 0
	for _, b := range blocks {
		if !strings.Contains(b, "github.com/wizenheimer/comet.") {
			continue
		}
		inComet++
		first := strings.SplitN(b, "\n", 2)[0]
		if strings.Contains(first, "sync.Mutex.Lock") || strings.Contains(first, "sync.RWMutex") || strings.Contains(first, "semacquire") ||
			strings.Contains(first, "sync.WaitGroup.Wait") || strings.Contains(first, "chan receive") || strings.Contains(first, "chan send") || strings.Contains(first, "select") {
			parked++
		}
	}
	return inComet > 0 && inComet == parked
}

func runC11(r *ev.Run) {
	r.Rule = "case = one shared instance of flat / hnsw (exact regime) / ivf, ivfpq (full probe) / pq / bm25 / metadata / hybrid / persistent store (tiny memtables, background flush) used by 2-16 goroutines issuing Add (fresh unique ids), Remove (targets from a small shared pool), " +
		"search-all, restricted search (pooled filters), Flush, WriteTo(io.Discard) / cache eviction, SetEfSearch / forced rotation, all under the Go race detector; every operation is recorded at the client boundary with one logical clock; " +
		"checked: no race report with a comet frame, no panic, no hang (watchdog + goroutine dump), no Add/Flush/WriteTo/search error on valid input, the interval form of the C11 visibility sentence, porcupine over per-id present/absent registers, " +
		"final search == successful adds - successful removes, unique auto-generated ids across goroutines and instances; plus targeted store schedules at the verif yield points (add vs rotation+flush, flush vs search, Close vs everything). " +
		"non-trivial = history in which >=1 add overlapped a search and >=1 remove overlapped a search; distinct by (kind, history digest)"
	r.Assumptions = []string{"a clean race-detector run covers only the operation pairs that actually overlapped: the observed overlap counts per kind are in the evidence", "wall-clock is used only for the 120 s watchdog; a firing watchdog is a violation only if the goroutine dump shows every goroutine inside comet parked on a sync primitive, otherwise inconclusive",
		"store histories with visibility oracle do not trigger compaction (known finding C08); compaction runs in the race-only store histories"}
	raceOn := false
	if bi, ok := debug.ReadBuildInfo(); ok {
		for _, s := range bi.Settings {
			if s.Key == "-race" && s.Value == "true" {
				raceOn = true
			}
		}
	}
	if !raceOn {
		fmt.Println("HARNESS-ERROR: C11 must be built with -race")
		r.Inconclusive("binary not built with -race")
	}
	r.Required = []string{"race-detector-enabled"}
	if raceOn {
		r.Count("race-detector-enabled", 1)
	}
	perKind := r.Pick(10, 150)
	var idCounter atomic.Uint32
	idCounter.Store(1 << 26)
	deadlocks := map[string]int{}
	r.Cases("history", perKind*len(concKinds), func(ci int, rng *rand.Rand) {
		kind := concKinds[ci%len(concKinds)]
		if deadlocks[kind] >= 2 {
			// two proven deadlocks of this kind are reported already; every further one costs the full watchdog
			r.Count("histories-skipped-after-two-deadlocks:"+kind, 1)
			r.Inconclusive("history skipped after two deadlocks: " + kind)
			return
		}
		sut, err := newConcSUT(kind, rng)
		if err != nil {
			r.ViolationAt("history", ci, "conc.setup", kind+": "+err.Error(), nil)
			return
		}
		defer sut.close()
		if kind == "store" {
			// widen the windows between the store's critical sections with PRNG yields/sleeps at the hook points
			un, hits := installPerturbation(uint64(ci)*7919 + uint64(r.Seed))
			defer func() { un(); r.Count("perturbation-yields-at-hook-points", hits.Load()) }()
		}
		G := 2 + rng.IntN(15)
		opsPer := 400 / G
		if opsPer > 60 {
			opsPer = 60
		}
		rec := &hist.Recorder{}
		var pool sync.Map // id -> true (added ids, targets for removal)
		var poolIDs []uint32
		var removedPool []uint32
		var poolMu sync.Mutex
		var addsLeft atomic.Int32
		addsLeft.Store(int32(sut.maxAdds))
		var vmu sync.Mutex
		var viols []hist.Violation
		note := func(sig, what string) {
			vmu.Lock()
			viols = append(viols, hist.Violation{Sig: sig, What: what})
			vmu.Unlock()
		}
		var wg sync.WaitGroup
		start := make(chan struct{})
		for g := 0; g < G; g++ {
			g := g
			grng := rand.New(rand.NewPCG(uint64(ci)*1000+uint64(g), uint64(r.Seed)))
			wg.Add(1)
			go func() {
				defer wg.Done()
				defer func() {
					if p := recover(); p != nil {
						note("conc."+kind+".panic", fmt.Sprintf("goroutine %d panicked: %v\n%s", g, p, trimTo(string(debug.Stack()), 2500)))
					}
				}()
				<-start
				for i := 0; i < opsPer; i++ {
					c := grng.IntN(20)
					switch {
					case c < 6:
						if addsLeft.Add(-1) < 0 {
							continue
						}
						id := idCounter.Add(1)
						if grng.IntN(5) == 0 && kind != "store" { // (store removal only reaches the writable memtable: id reuse there is outside C08/C11)
							// update: bring back an id some goroutine has tried to remove (it may be racing with that very removal)
							poolMu.Lock()
							if n := len(removedPool); n > 0 {
								k := grng.IntN(n) // taken out of the pool: one re-add per removal attempt
								id = removedPool[k]
								removedPool[k] = removedPool[n-1]
								removedPool = removedPool[:n-1]
							}
							poolMu.Unlock()
						}
						op := rec.Begin(g, hist.Add, id)
						err := sut.add(id, grng)
						rec.End(op, err == nil, nil, err)
						if err != nil {
							note("conc."+kind+".add-fails-under-concurrency", fmt.Sprintf("Add(%d) of a valid document failed: %v", id, err))
						} else {
							pool.Store(id, true)
							poolMu.Lock()
							poolIDs = append(poolIDs, id)
							poolMu.Unlock()
						}
					case c < 9:
						poolMu.Lock()
						var id uint32
						if len(poolIDs) > 0 {
							id = poolIDs[grng.IntN(len(poolIDs))]
						}
						poolMu.Unlock()
						if id == 0 {
							continue
						}
						// HNSW: adding an id that is still live (a re-add overtaking its removal) is a duplicate-id add, outside
						// every quantifier (it leaves self-loops in the graph); there an id returns only after its removal
						// completed. For the other kinds a live duplicate is well defined (BM25 replaces, the list-based
						// indexes hide every copy behind the id's tombstone), so the re-add may race with the removal.
						if kind != "hnsw" {
							poolMu.Lock()
							removedPool = append(removedPool, id)
							poolMu.Unlock()
						}
						op := rec.Begin(g, hist.Remove, id)
						err := sut.remove(id)
						rec.End(op, err == nil, nil, err)
						if kind == "hnsw" && err == nil {
							poolMu.Lock()
							removedPool = append(removedPool, id)
							poolMu.Unlock()
						}
					case c < 14:
						op := rec.Begin(g, hist.Search, 0)
						seen, err := sut.searchAll()
						rec.End(op, err == nil, seen, err)
						if err != nil {
							note("conc."+kind+".search-fails-under-concurrency", fmt.Sprintf("search-all failed: %v", err))
						}
					case c < 16:
						poolMu.Lock()
						var sub []uint32
						for _, id := range poolIDs {
							if grng.IntN(2) == 0 {
								sub = append(sub, id)
							}
						}
						poolMu.Unlock()
						if len(sub) == 0 {
							continue
						}
						seen, err := sut.searchRestricted(sub)
						if err != nil {
							note("conc."+kind+".search-fails-under-concurrency", fmt.Sprintf("restricted search failed: %v", err))
						}
						if kind != "hybrid" && kind != "store" {
							allowed := map[uint32]bool{}
							for _, id := range sub {
								allowed[id] = true
							}
							for id := range seen {
								if !allowed[id] {
									note("conc."+kind+".restriction-leak", fmt.Sprintf("restricted search returned id %d outside its restriction (pooled filter shared?)", id))
									break
								}
							}
						}
					case c < 18:
						if err := sut.flush(); err != nil {
							note("conc."+kind+".flush-fails-under-concurrency", fmt.Sprintf("Flush failed: %v", err))
						}
					case c < 19:
						if sut.writeTo != nil {
							if err := sut.writeTo(); err != nil {
								note("conc."+kind+".writeto-fails-under-concurrency", fmt.Sprintf("WriteTo failed: %v", err))
							}
						}
					default:
						sut.extra(grng)
					}
					if grng.IntN(4) == 0 {
						runtime.Gosched()
					}
				}
			}()
		}
		close(start)
		done := make(chan struct{})
		go func() { wg.Wait(); close(done) }()
		select {
		case <-done:
		case <-time.After(120 * time.Second):
			buf := make([]byte, 1<<20)
			dump := string(buf[:runtime.Stack(buf, true)])
			if goroutineDumpShowsCometDeadlock(dump) {
				deadlocks[kind]++
				r.ViolationAt("history", ci, "conc."+kind+".deadlock", "workload did not finish within 120 s and every goroutine inside comet is parked on a sync primitive", map[string]any{"goroutine_dump": trimTo(dump, 12000)})
			} else {
				r.Inconclusive("watchdog fired without a provable wait cycle: " + kind)
			}
			return
		}
		ops := rec.Ops()
		// post-quiescence: final search == successful adds - successful removes
		final, err := sut.searchAll()
		if err != nil {
			note("conc."+kind+".search-fails-under-concurrency", "final search failed: "+err.Error())
		} else {
			// per id: the state after its LAST successful add/remove, when that op did not overlap any other
			// successful op on the same id (ids can be re-added after a removal); otherwise the id is skipped
			byID := map[uint32][]*hist.Op{}
			for _, o := range ops {
				if (o.Kind == hist.Add || o.Kind == hist.Remove) && o.OK {
					byID[o.ID] = append(byID[o.ID], o)
				}
			}
			want, skip := map[uint32]bool{}, map[uint32]bool{}
			for id, l := range byID {
				last := l[0]
				for _, o := range l {
					if o.Call > last.Call {
						last = o
					}
				}
				for _, o := range l {
					if o != last && (o.Ret == 0 || o.Ret > last.Call) {
						skip[id] = true
					}
				}
				if last.Kind == hist.Add {
					want[id] = true
				}
			}
			f2, w2 := map[uint32]bool{}, map[uint32]bool{}
			for id := range final {
				if !skip[id] {
					f2[id] = true
				}
			}
			for id := range want {
				if !skip[id] {
					w2[id] = true
				}
			}
			if !sameSet(f2, w2) {
				note("conc."+kind+".final-state", "after quiescence search-all differs from the state after each id's last successful add/remove: "+setDiff(f2, w2))
			}
		}
		for _, v := range hist.IntervalCheck(ops) {
			note("conc."+kind+"."+v.Sig, v.What)
		}
		res, parts, witness := hist.Porcupine(ops, sut.removeErrAnyState, sut.removeOKWhenAbsent, 20*time.Second)
		switch res {
		case "illegal":
			note("conc."+kind+".not-linearizable", witness)
		case "unknown":
			r.Inconclusive("porcupine timeout: " + kind)
		}
		r.Count("porcupine-partitions-checked", int64(parts))
		ov := hist.Overlaps(ops)
		for k, v := range ov {
			r.Count("overlaps:"+kind+":"+k, int64(v))
		}
		r.Count("ops-recorded:"+kind, int64(len(ops)))
		r.Count("histories:"+kind, 1)
		// one violation per signature per history
		seenSig := map[string]bool{}
		for _, v := range viols {
			if seenSig[v.Sig] {
				continue
			}
			seenSig[v.Sig] = true
			r.ViolationAt("history", ci, v.Sig, fmt.Sprintf("%s G=%d: %s", kind, G, v.What), map[string]any{"kind": kind, "goroutines": G, "ops": len(ops), "history": describeHistory(ops, 80)})
		}
		if r.WantSample() && ci%23 == 5 {
			r.Sample(map[string]any{"kind": kind, "goroutines": G, "ops": len(ops), "overlaps": ov, "history_head": describeHistory(ops, 12)})
		}
		r.Eval(ov["add||search"] > 0 && ov["remove||search"] > 0, ev.Digest(kind, G, len(ops), ci))
	})

	c11AutoIDs(r)
	c11ReplaceUnderSearch(r)
	c11StoreRaceOnly(r)
	c11TargetedStore(r)
	c11RaceLog(r)
}

func trimTo(s string, n int) string {
	if len(s) > n {
		return s[:n] + "…"
	}
	return s
}

func describeHistory(ops []*hist.Op, n int) []string {
	sorted := append([]*hist.Op(nil), ops...)
	sort.Slice(sorted, func(i, j int) bool { return sorted[i].Call < sorted[j].Call })
	var out []string
	for i, o := range sorted {
		if i >= n {
			out = append(out, fmt.Sprintf("... %d more", len(sorted)-n))
			break
		}
		switch o.Kind {
		case hist.Add:
			out = append(out, fmt.Sprintf("p%d add(%d) ok=%v [%d,%d]", o.Proc, o.ID, o.OK, o.Call, o.Ret))
		case hist.Remove:
			out = append(out, fmt.Sprintf("p%d remove(%d) ok=%v [%d,%d]", o.Proc, o.ID, o.OK, o.Call, o.Ret))
		default:
			out = append(out, fmt.Sprintf("p%d search -> %d ids [%d,%d]", o.Proc, len(o.Seen), o.Call, o.Ret))
		}
	}
	return out
}

// c11AutoIDs: automatically generated ids are unique across goroutines and index instances.
func c11AutoIDs(r *ev.Run) {
	r.Cases("auto-ids", r.Pick(4, 40), func(ci int, rng *rand.Rand) {
		G := 4 + rng.IntN(13)
		var hs []comet.HybridSearchIndex
		for i := 0; i < 3; i++ {
			sut, _ := newHybridSUT(true, true, true, 2, comet.Euclidean)
			hs = append(hs, sut.idx)
		}
		var mu sync.Mutex
		seen := map[uint32]string{}
		var dups []string
		var wg sync.WaitGroup
		for g := 0; g < G; g++ {
			g := g
			wg.Add(1)
			go func() {
				defer wg.Done()
				for i := 0; i < 200; i++ {
					var id uint32
					var src string
					switch i % 4 {
					case 0:
						id, src = comet.NewVectorNode([]float32{1, 2}).ID(), "NewVectorNode"
					case 1:
						id, src = comet.NewMetadataNode(map[string]any{"a": 1}).ID(), "NewMetadataNode"
					case 3:
						// a REJECTED add (wrong dimension / unsupported metadata type) beside the successful ones: whatever
						// it does with the id it drew, no id may be handed out twice afterwards
						var err error
						if i%8 == 3 {
							_, err = hs[(g+i)%len(hs)].Add([]float32{1, 2, 3}, "common", map[string]any{"kind": "doc"})
						} else {
							_, err = hs[(g+i)%len(hs)].Add([]float32{1, 2}, "common", map[string]any{"bad": struct{}{}})
						}
						if err == nil {
							mu.Lock()
							dups = append(dups, "an invalid hybrid.Add was accepted")
							mu.Unlock()
						}
						continue
					default:
						var err error
						id, err = hs[(g+i)%len(hs)].Add([]float32{1, float32(i)}, "common", map[string]any{"kind": "doc"})
						src = "hybrid.Add"
						if err != nil {
							mu.Lock()
							dups = append(dups, "hybrid.Add failed: "+err.Error())
							mu.Unlock()
							continue
						}
					}
					mu.Lock()
					if prev, ok := seen[id]; ok {
						dups = append(dups, fmt.Sprintf("id %d handed out twice (%s and %s)", id, prev, src))
					}
					seen[id] = src
					mu.Unlock()
				}
			}()
		}
		wg.Wait()
		if len(dups) > 0 {
			r.ViolationAt("auto-ids", ci, "conc.auto-id-duplicate", fmt.Sprintf("%d problems, e.g. %s", len(dups), dups[0]), map[string]any{"problems": dups[:min(len(dups), 10)]})
		}
		r.Count("auto-ids-collected", int64(len(seen)))
		r.Eval(true, ev.Digest("autoid", G, ci))
	})
}

// c11StoreRaceOnly: everything at once on a store, including compaction triggers, eviction and a final Close racing
// with the tail of the workload. Oracle: race detector, panics, hangs, errors from Add on an open store.
func c11StoreRaceOnly(r *ev.Run) {
	storeDeadlocks := 0
	r.Cases("store-race", r.Pick(8, 100), func(ci int, rng *rand.Rand) {
		if storeDeadlocks >= 2 {
			r.Count("store-race-cases-skipped-after-two-deadlocks", 1)
			r.Inconclusive("store-race case skipped after two deadlocks")
			return
		}
		dir, err := os.MkdirTemp("", "verif-c11s-*")
		if err != nil {
			panic(err)
		}
		defer os.RemoveAll(dir)
		p := storeParams{VecKind: "flat", Text: true, Meta: true, Dim: 3, Metric: comet.Cosine, CompactionThreshold: 2 + rng.IntN(3),
			MemtableSizeLimit: int64(300 + rng.IntN(900)), FlushThreshold: int64(600 + rng.IntN(2000))}
		s, err := p.open(dir)
		if err != nil {
			r.ViolationAt("store-race", ci, "conc.store.open-error", err.Error(), nil)
			return
		}
		un, hits := installPerturbation(uint64(ci)*104729 + uint64(r.Seed))
		defer func() { un(); r.Count("perturbation-yields-at-hook-points", hits.Load()) }()
		G := 3 + rng.IntN(10)
		var closed atomic.Bool
		var wg sync.WaitGroup
		var vmu sync.Mutex
		var viols []hist.Violation
		note := func(sig, what string) {
			vmu.Lock()
			viols = append(viols, hist.Violation{Sig: sig, What: what})
			vmu.Unlock()
		}
		var idc atomic.Uint32
		idc.Store(1<<27 + uint32(ci)<<12)
		for g := 0; g < G; g++ {
			g := g
			grng := rand.New(rand.NewPCG(uint64(ci)*77+uint64(g), uint64(r.Seed)))
			wg.Add(1)
			go func() {
				defer wg.Done()
				defer func() {
					if p := recover(); p != nil {
						note("conc.store.panic", fmt.Sprintf("goroutine %d panicked: %v\n%s", g, p, trimTo(string(debug.Stack()), 2500)))
					}
				}()
				for i := 0; i < 60; i++ {
					wasClosed := closed.Load()
					switch c := grng.IntN(12); {
					case c < 5:
						d := genStoreDoc(grng, p, idc.Add(1), "r")
						if err := s.AddWithID(d.ID, d.Vec, d.Text, d.Meta); err != nil && !closed.Load() && !wasClosed {
							note("conc.store.add-fails-under-concurrency", fmt.Sprintf("AddWithID on an open store failed: %v", err))
						}
					case c < 8:
						_, err := s.NewSearch().WithText("common").WithVector([]float32{1, 0, 0}).WithK(5).Execute()
						if err != nil && !closed.Load() && !wasClosed {
							note("conc.store.search-fails-under-concurrency", fmt.Sprintf("search on an open store failed: %v", err))
						}
					case c < 9:
						if err := s.Flush(); err != nil && !closed.Load() && !wasClosed {
							note("conc.store.flush-fails-under-concurrency", fmt.Sprintf("Flush on an open store failed: %v", err))
						}
					case c < 10:
						s.TriggerCompaction()
					case c < 11:
						s.VerifEvictAllCaches()
					default:
						s.VerifRotate()
					}
				}
			}()
		}
		// Close races with the tail of the workload
		wg.Add(1)
		go func() {
			defer wg.Done()
			time.Sleep(time.Duration(rng.IntN(30)) * time.Millisecond)
			closed.Store(true)
			if err := s.Close(); err != nil {
				note("conc.store.close-error", "Close failed: "+err.Error())
			}
		}()
		done := make(chan struct{})
		go func() { wg.Wait(); close(done) }()
		select {
		case <-done:
		case <-time.After(120 * time.Second):
			buf := make([]byte, 1<<20)
			dump := string(buf[:runtime.Stack(buf, true)])
			if goroutineDumpShowsCometDeadlock(dump) {
				storeDeadlocks++
				r.ViolationAt("store-race", ci, "conc.store.deadlock", "store workload with Close did not finish within 120 s; every goroutine inside comet is parked", map[string]any{"goroutine_dump": trimTo(dump, 12000)})
			} else {
				r.Inconclusive("store watchdog fired without a provable wait cycle")
			}
			return
		}
		seen := map[string]bool{}
		for _, v := range viols {
			if !seen[v.Sig] {
				seen[v.Sig] = true
				r.ViolationAt("store-race", ci, v.Sig, v.What, nil)
			}
		}
		r.Count("store-race-histories", 1)
		r.Eval(true, ev.Digest("storerace", G, ci))
	})
}

// c11ReplaceUnderSearch: a BM25 index holding one to three documents, each of which is re-added under its own id over
// and over (Add on an existing id is an update) while other goroutines search. No document is ever removed, every
// version of every document matches the query, so every search returns every id: an update is not a removal, and a
// search that begins in the middle of one may see the old or the new version but never "nothing".
func c11ReplaceUnderSearch(r *ev.Run) {
	r.Cases("replace-under-search", r.Pick(6, 40), func(ci int, rng *rand.Rand) {
		idx := comet.NewBM25SearchIndex()
		nDocs := 1 + ci%3
		filler := strings.Repeat("lorem ipsum dolor sit amet consectetur ", 1+rng.IntN(60))
		text := func(id uint32, ver int) string { return fmt.Sprintf("common doc%d v%d %s", id, ver%7, filler) }
		ids := make([]uint32, nDocs)
		for i := range ids {
			ids[i] = uint32(1 + i + 1000*ci)
			if err := idx.Add(ids[i], text(ids[i], 0)); err != nil {
				r.ViolationAt("replace-under-search", ci, "conc.bm25.add-error", err.Error(), nil)
				return
			}
		}
		var stop atomic.Bool
		var searches, short atomic.Int64
		var firstBad atomic.Value
		var wg sync.WaitGroup
		G := 2 + rng.IntN(6)
		for g := 0; g < G; g++ {
			wg.Add(1)
			go func(g int) {
				defer wg.Done()
				for n := 0; !stop.Load(); n++ {
					x := idx.NewSearch().WithQuery("common").WithK(0)
					if (n+g)%3 == 1 {
						x = idx.NewSearch().WithQuery("common").WithK(10).WithDocumentIDs(ids...)
					}
					res, err := x.Execute()
					searches.Add(1)
					if err != nil {
						firstBad.CompareAndSwap(nil, "search error: "+err.Error())
						short.Add(1)
					} else if len(res) != nDocs {
						got := []uint32{}
						for _, t := range res {
							got = append(got, t.Id)
						}
						firstBad.CompareAndSwap(nil, fmt.Sprintf("search returned ids %v, the index holds %v (each re-added under its own id, none removed)", got, ids))
						short.Add(1)
					}
					if n%4 == 0 {
						runtime.Gosched()
					}
				}
			}(g)
		}
		rounds := r.Pick(300, 1500)
		for v := 1; v <= rounds; v++ {
			for _, id := range ids {
				if err := idx.Add(id, text(id, v)); err != nil {
					firstBad.CompareAndSwap(nil, "re-add failed: "+err.Error())
					short.Add(1)
				}
			}
			if v%16 == 0 {
				runtime.Gosched()
			}
		}
		stop.Store(true)
		wg.Wait()
		if short.Load() > 0 {
			r.ViolationAt("replace-under-search", ci, "conc.bm25.missing-completed-add", fmt.Sprintf("bm25, %d documents, %d searchers, %d update rounds: %d of %d searches did not return every document; first: %v", nDocs, G, rounds, short.Load(), searches.Load(), firstBad.Load()), nil)
		}
		r.Count("replace-under-search:searches", searches.Load())
		r.Count("replace-under-search:updates", int64(rounds*nDocs))
		r.Eval(searches.Load() > 0, ev.Digest("rus", ci, nDocs, G))
	})
}

// c11TargetedStore: the rare interleavings of the store at the verif yield points.
func c11TargetedStore(r *ev.Run) {
	ctl := newHookCtl()
	ctl.install()
	defer ctl.uninstall()
	own := &ownership{owners: map[any]string{}, tmpl: map[any]bool{}}
	points := []string{"memq.add.picked", "memtable.add.prelock", "memtable.add.locked", "memtable.add.locked@roomy", "memtable.add.prelock@roomy", "flush.registered", "flush.dropped", "search.listed-memtables", "search.listed-segments", "crash:flush.added", "memq.list", "segmgr.list", "segment.load.begin", "segment.load.instances"}
	actions := []string{"add", "add-forcing-rotation", "search-all", "flush", "remove-newest"}
	reps := r.Pick(1, 5)
	total := reps * len(points) * len(actions)
	r.Cases("targeted", total, func(i int, rng *rand.Rand) {
		runOneSchedule(r, ctl, own, i, rng, points[(i/len(actions))%len(points)], actions[i%len(actions)])
	})
	// sampled depth-2 schedules (three store operations in flight, two of them held between critical sections), here
	// under the race detector; same sampler and oracle as C08's stream of that name
	ctl.uninstall()
	runDepth2Schedules(r, r.Pick(24, 240), false)
	ctl.install()
	// (i) A picks the writable memtable and is held; B fills it, forcing a rotation AND a complete flush; A resumes:
	// A's Add must succeed, be visible now, after the flush, and after a restart.
	r.Cases("targeted-add-vs-rotation-and-flush", r.Pick(6, 60), func(ci int, rng *rand.Rand) {
		dir, err := os.MkdirTemp("", "verif-c11t-*")
		if err != nil {
			panic(err)
		}
		defer os.RemoveAll(dir)
		p := storeParams{VecKind: "flat", Text: true, Meta: true, Dim: 2, Metric: comet.Euclidean, CompactionThreshold: 1000, MemtableSizeLimit: 900, FlushThreshold: 1 << 40}
		point := []string{"memq.add.picked", "memtable.add.prelock", "memtable.add.locked"}[ci%3]
		if point == "memtable.add.locked" {
			p.MemtableSizeLimit = 1 << 20 // A's write must go to the memtable that already holds the earlier documents
		}
		s, err := p.open(dir)
		if err != nil {
			r.ViolationAt("targeted-add-vs-rotation-and-flush", ci, "conc.store.open-error", err.Error(), nil)
			return
		}
		acked := map[uint32]bool{}
		var mu sync.Mutex
		base := uint32(1<<28 + ci<<8)
		var log []string
		fail := func(sig, what string) {
			r.ViolationAt("targeted-add-vs-rotation-and-flush", ci, sig, fmt.Sprintf("point=%s: %s", point, what), map[string]any{"log": log})
		}
		var lockedDone chan struct{}
		if point == "memtable.add.locked" {
			// A is held INSIDE the memtable's write section (after its frozen re-check). The memtable already holds
			// documents, so a Flush beside it rotates it out: the Flush has to wait for A's write (it cannot finish
			// while A is held), and A's document must be in what gets flushed.
			for i := 0; i < 1+rng.IntN(3); i++ {
				d := genStoreDoc(rng, p, base+50+uint32(i), "pre")
				if err := s.AddWithID(d.ID, d.Vec, d.Text, d.Meta); err == nil {
					acked[d.ID] = true
				}
			}
			ctl.setTarget(point, 1, func(args []any) {
				var inTime bool
				inTime, lockedDone = runBeside(func() {
					err := s.Flush()
					mu.Lock()
					log = append(log, fmt.Sprintf("B: Flush -> %v while A is held at %s", err, point))
					mu.Unlock()
				}, 150*time.Millisecond)
				if inTime {
					r.Count("targeted:flush-finished-while-a-write-was-in-progress", 1)
				} else {
					r.Count("targeted:flush-waited-for-the-write-in-progress", 1)
				}
			})
		} else {
			ctl.setTarget(point, 1, func(args []any) {
				// B: fill the memtable (forces rotation), then flush everything
				for i := 0; i < 6; i++ {
					d := genStoreDoc(rng, p, base+100+uint32(i), "B")
					d.Text += fmt.Sprintf(" pad%0200d", i)
					if err := s.AddWithID(d.ID, d.Vec, d.Text, d.Meta); err == nil {
						mu.Lock()
						acked[d.ID] = true
						mu.Unlock()
					} else {
						fail("conc.store.add-fails-under-concurrency", fmt.Sprintf("B's AddWithID failed: %v", err))
					}
				}
				err := s.Flush()
				log = append(log, fmt.Sprintf("B: 6 adds + Flush -> %v while A is held at %s", err, point))
			})
		}
		dA := genStoreDoc(rng, p, base+1, "A")
		errA := s.AddWithID(dA.ID, dA.Vec, dA.Text, dA.Meta)
		ctl.clearTarget()
		if lockedDone != nil {
			select {
			case <-lockedDone:
			case <-time.After(60 * time.Second):
				fail("conc.store.deadlock-or-hang", "a Flush started while a write was in progress did not return within 60 s after the write completed")
				s.Close()
				return
			}
		}
		log = append(log, fmt.Sprintf("A: AddWithID(%d) -> %v", dA.ID, errA))
		if errA != nil {
			fail("conc.store.add-fails-under-concurrency", fmt.Sprintf("A's Add failed only because a rotation/flush happened while it was between choosing and writing the memtable: %v", errA))
		} else {
			acked[dA.ID] = true
		}
		check := func(h comet.HybridSearchIndex, when string) {
			a := searchAllModalities(h, p)
			if a.Err != nil {
				fail("conc.store.search-error", when+": "+a.Err.Error())
				return
			}
			missing, _ := a.check(acked, acked)
			if len(missing) > 0 {
				fail("conc.store.acknowledged-write-lost", fmt.Sprintf("%s: acknowledged documents missing: %v", when, missing))
			}
		}
		check(s, "right-after")
		if err := s.Flush(); err != nil {
			fail("conc.store.flush-error", err.Error())
		}
		check(s, "after-flush")
		s.Close()
		s2, err := p.open(dir)
		if err != nil {
			fail("conc.store.open-error", "reopen: "+err.Error())
			return
		}
		check(s2, "after-restart")
		s2.Close()
		r.Count("targeted:add-vs-rotation-and-flush", 1)
		r.Eval(true, ev.Digest("t1", point, ci))
	})
	// (iii) Close racing with Add / Flush / search at each close.* point
	closeActions := []string{"add", "search", "flush"}
	closePoints := []string{"close.marked", "close.workers-stopped"}
	r.Cases("targeted-close", r.Pick(1, 6)*len(closeActions)*len(closePoints), func(ci int, rng *rand.Rand) {
		dir, err := os.MkdirTemp("", "verif-c11c-*")
		if err != nil {
			panic(err)
		}
		defer os.RemoveAll(dir)
		p := storeParams{VecKind: "flat", Text: true, Meta: true, Dim: 2, Metric: comet.Euclidean, CompactionThreshold: 1000, MemtableSizeLimit: 900, FlushThreshold: 1 << 40}
		s, err := p.open(dir)
		if err != nil {
			return
		}
		point, action := closePoints[ci%len(closePoints)], closeActions[(ci/len(closePoints))%len(closeActions)]
		base := uint32(1<<28 + 1<<20 + ci<<8)
		durable := map[uint32]bool{}
		for i := 0; i < 4; i++ {
			d := genStoreDoc(rng, p, base+uint32(i), "pre")
			if s.AddWithID(d.ID, d.Vec, d.Text, d.Meta) == nil {
				durable[d.ID] = true
			}
		}
		fail := func(sig, what string) {
			r.ViolationAt("targeted-close", ci, sig, fmt.Sprintf("point=%s action=%s: %s", point, action, what), nil)
		}
		var besideDone chan struct{}
		ctl.setTarget(point, 1, func(args []any) {
			_, besideDone = runBeside(func() {
				defer func() {
					if p := recover(); p != nil {
						fail("conc.store.panic", fmt.Sprintf("operation racing with Close panicked: %v", p))
					}
				}()
				switch action {
				case "add":
					d := genStoreDoc(rng, p, base+50, "late")
					s.AddWithID(d.ID, d.Vec, d.Text, d.Meta)
				case "search":
					s.NewSearch().WithText("common").Execute()
				case "flush":
					s.Flush()
				}
			}, 150*time.Millisecond)
		})
		errC := s.Close()
		ctl.clearTarget()
		if besideDone != nil {
			select {
			case <-besideDone:
			case <-time.After(60 * time.Second):
				fail("conc.store.deadlock-or-hang", "the operation racing with Close did not return within 60 s after Close returned")
				return
			}
		}
		if errC != nil {
			fail("conc.store.close-error", errC.Error())
		}
		s2, err := p.open(dir)
		if err != nil {
			fail("conc.store.open-error", "reopen after the racing Close: "+err.Error())
			return
		}
		a := searchAllModalities(s2, p)
		if a.Err != nil {
			fail("conc.store.search-error", a.Err.Error())
		} else if missing, _ := a.check(durable, map[uint32]bool{}); len(missing) > 0 {
			fail("conc.store.acknowledged-write-lost", fmt.Sprintf("documents added before Close are missing after restart: %v", missing))
		}
		s2.Close()
		r.Count("targeted:close-vs-"+action, 1)
		r.Eval(true, ev.Digest("t3", point, action, ci))
	})
	// (iii-b) the other way round: an Add is held in the middle (after the store-level checks, inside the queue / the
	// memtable), Close is called beside it. Neither may block the other for good: the Add returns (nil or "closed"),
	// Close returns nil, the LOCK is gone, the directory reopens and an acknowledged Add is there.
	addPoints := []string{"memq.add.picked", "memtable.add.prelock", "memtable.add.locked"}
	r.Cases("targeted-add-vs-close", r.Pick(1, 5)*len(addPoints), func(ci int, rng *rand.Rand) {
		dir, err := os.MkdirTemp("", "verif-c11a-*")
		if err != nil {
			panic(err)
		}
		defer os.RemoveAll(dir)
		p := storeParams{VecKind: "flat", Text: true, Meta: true, Dim: 2, Metric: comet.Euclidean, CompactionThreshold: 1000, MemtableSizeLimit: 1 << 20, FlushThreshold: []int64{1, 1 << 40}[ci%2]}
		s, err := p.open(dir)
		if err != nil {
			return
		}
		point := addPoints[(ci/2)%len(addPoints)]
		fail := func(sig, what string, extra map[string]any) {
			r.ViolationAt("targeted-add-vs-close", ci, sig, fmt.Sprintf("Add held at %s: %s", point, what), extra)
		}
		base := uint32(1<<28 + 1<<22 + ci<<8)
		acked := map[uint32]bool{}
		for i := 0; i < 2; i++ {
			d := genStoreDoc(rng, p, base+uint32(i), "pre")
			if s.AddWithID(d.ID, d.Vec, d.Text, d.Meta) == nil {
				acked[d.ID] = true
			}
		}
		closeRes := make(chan error, 1)
		var closeDone chan struct{}
		ctl.setTarget(point, 1, func(args []any) {
			_, closeDone = runBeside(func() { closeRes <- s.Close() }, 150*time.Millisecond)
		})
		dA := genStoreDoc(rng, p, base+10, "A")
		addRes := make(chan error, 1)
		go func() { addRes <- s.AddWithID(dA.ID, dA.Vec, dA.Text, dA.Meta) }()
		var errA, errC error
		select {
		case errA = <-addRes:
		case <-time.After(60 * time.Second):
			buf := make([]byte, 1<<20)
			dump := string(buf[:runtime.Stack(buf, true)])
			ctl.clearTarget()
			if goroutineDumpShowsCometDeadlock(dump) {
				fail("conc.store.deadlock", "an Add with a Close called beside it never returned; every goroutine inside comet is parked on a sync primitive", map[string]any{"goroutine_dump": trimTo(dump, 12000)})
			} else {
				r.Inconclusive("add-vs-close watchdog fired without a provable wait cycle")
			}
			return
		}
		fired := ctl.fired()
		ctl.clearTarget()
		if !fired || closeDone == nil {
			s.Close()
			r.Inconclusive("add point not reached: " + point)
			return
		}
		select {
		case errC = <-closeRes:
		case <-time.After(60 * time.Second):
			fail("conc.store.deadlock-or-hang", "Close called beside an Add did not return within 60 s after the Add returned", nil)
			return
		}
		if errC != nil {
			fail("conc.store.close-error", errC.Error(), nil)
		}
		// (The held Add itself may return nil although Close has meanwhile returned: the properties promise durability
		// only for what was acknowledged BEFORE Close returned, so that document is not owed; counted, not judged.)
		if errA == nil {
			r.Count("targeted:add-vs-close:add-acknowledged-after-close-returned(not owed)", 1)
		}
		if _, err := os.Stat(dir + "/LOCK"); err == nil {
			fail("conc.store.lock-left-after-close", "LOCK still present after Close returned", nil)
		}
		s2, err := p.open(dir)
		if err != nil {
			fail("conc.store.open-error", "reopen after Add / Close: "+err.Error(), nil)
			return
		}
		a := searchAllModalities(s2, p)
		if a.Err != nil {
			fail("conc.store.search-error", a.Err.Error(), nil)
		} else if missing, _ := a.check(acked, map[uint32]bool{dA.ID: true}); len(missing) > 0 {
			fail("conc.store.acknowledged-write-lost", fmt.Sprintf("documents acknowledged before Close was called are missing after restart: %v", missing), nil)
		}
		s2.Close()
		r.Count("targeted:add-vs-close:"+point, 1)
		r.Eval(true, ev.Digest("t3b", point, ci))
	})
	// (iii-c) a Remove is held between choosing the writable memtable and removing from it, and that memtable is rotated
	// out and flushed beside it (explicit Flush, or adds that overflow a tiny memtable with the background flush on).
	// Whatever the Remove then answers has to be true: acknowledged -> the document is gone from every later search;
	// refused -> the document is still there. The bystander documents stay.
	removeBeside := []string{"flush", "rotating-adds", "flush-twice"}
	r.Cases("targeted-remove-vs-flush", r.Pick(2, 8)*len(removeBeside), func(ci int, rng *rand.Rand) {
		dir, err := os.MkdirTemp("", "verif-c11r-*")
		if err != nil {
			panic(err)
		}
		defer os.RemoveAll(dir)
		beside := removeBeside[ci%len(removeBeside)]
		p := storeParams{VecKind: "flat", Text: true, Meta: true, Dim: 2, Metric: comet.Euclidean, CompactionThreshold: 1000, MemtableSizeLimit: 1 << 20, FlushThreshold: 1 << 40}
		if beside == "rotating-adds" {
			p.MemtableSizeLimit, p.FlushThreshold = 1500, 1
		}
		s, err := p.open(dir)
		if err != nil {
			return
		}
		fail := func(sig, what string) {
			r.ViolationAt("targeted-remove-vs-flush", ci, sig, fmt.Sprintf("Remove held at store.remove.picked, beside it %s: %s", beside, what), nil)
		}
		base := uint32(1<<28 + 1<<23 + ci<<8)
		present, ever := map[uint32]bool{}, map[uint32]bool{}
		nPre := 2 + ci/len(removeBeside)%3
		for i := 0; i < nPre; i++ {
			d := genStoreDoc(rng, p, base+uint32(i), "pre")
			if s.AddWithID(d.ID, d.Vec, d.Text, d.Meta) == nil {
				present[d.ID], ever[d.ID] = true, true
			}
		}
		victim := base + uint32(rng.IntN(nPre))
		if !present[victim] {
			s.Close()
			return
		}
		var besideDone chan struct{}
		ctl.setTarget("store.remove.picked", 1, func(args []any) {
			_, besideDone = runBeside(func() {
				switch beside {
				case "flush":
					s.Flush()
				case "flush-twice":
					s.Flush()
					s.Flush()
				case "rotating-adds":
					for i := 0; i < 12; i++ {
						d := genStoreDoc(rng, p, base+100+uint32(i), "late")
						if s.AddWithID(d.ID, d.Vec, d.Text, d.Meta) == nil {
							present[d.ID], ever[d.ID] = true, true
						}
					}
					s.Flush()
				}
			}, 400*time.Millisecond)
		})
		errR := s.Remove(victim)
		fired := ctl.fired()
		ctl.clearTarget()
		if !fired || besideDone == nil {
			s.Close()
			r.Inconclusive("store.remove.picked not reached")
			return
		}
		select {
		case <-besideDone:
		case <-time.After(60 * time.Second):
			fail("conc.store.deadlock-or-hang", "the flush running beside a Remove did not return within 60 s after the Remove returned")
			return
		}
		if errR == nil {
			delete(present, victim)
			r.Count("targeted:remove-vs-flush:remove-acknowledged", 1)
		} else {
			r.Count("targeted:remove-vs-flush:remove-refused", 1)
		}
		check := func(when string) {
			a := searchAllModalities(s, p)
			if a.Err != nil {
				fail("conc.store.search-error", when+": "+a.Err.Error())
				return
			}
			missing, _ := a.check(present, ever)
			if len(missing) > 0 {
				fail("conc.store.acknowledged-write-lost", fmt.Sprintf("%s: documents whose add completed and that nobody removed successfully are missing: %v (Remove(%d) -> %v)", when, missing, victim, errR))
			}
			if errR == nil {
				for name, got := range map[string]map[uint32]bool{"vector": a.Vec, "text": a.Text, "metadata": a.Meta} {
					if got[victim] {
						fail("conc.store.removed-id-returned", fmt.Sprintf("%s: Remove(%d) returned nil, yet a %s search that began afterwards returns it", when, victim, name))
					}
				}
			}
		}
		check("right-after")
		if err := s.Flush(); err != nil {
			fail("conc.store.flush-error", err.Error())
		}
		check("after-flush")
		s.Close()
		r.Count("targeted:remove-vs-flush:"+beside, 1)
		r.Eval(true, ev.Digest("t3c", beside, ci, errR == nil))
	})
	// (iii-d) OBSERVATION ONLY (store.Train is in no property's list of concurrent operations): an Add is held between
	// choosing the writable memtable and writing to it while store.Train runs beside it (Train renews the writable
	// memtable, since the per-owner-instance fix). Whether the acknowledged Add is visible afterwards is counted, not judged.
	r.Cases("observe-add-vs-train", r.Pick(4, 12), func(ci int, rng *rand.Rand) {
		dir, err := os.MkdirTemp("", "verif-c11t-*")
		if err != nil {
			panic(err)
		}
		defer os.RemoveAll(dir)
		p := storeParams{VecKind: "flat", Text: true, Meta: true, Dim: 2, Metric: comet.Euclidean, CompactionThreshold: 1000, MemtableSizeLimit: 1 << 20, FlushThreshold: 1 << 40}
		s, err := p.open(dir)
		if err != nil {
			return
		}
		defer s.Close()
		base := uint32(1<<28 + 1<<24 + ci<<8)
		for i := 0; i < ci%2; i++ { // an empty or a non-empty writable memtable
			d := genStoreDoc(rng, p, base+uint32(i), "pre")
			s.AddWithID(d.ID, d.Vec, d.Text, d.Meta)
		}
		var done chan struct{}
		ctl.setTarget("memq.add.picked", 1, func(args []any) {
			_, done = runBeside(func() { s.Train([][]float32{{1, 2}, {3, 4}}) }, 2*time.Second)
		})
		d := genStoreDoc(rng, p, base+10, "A")
		errA := s.AddWithID(d.ID, d.Vec, d.Text, d.Meta)
		fired := ctl.fired()
		ctl.clearTarget()
		if !fired || done == nil {
			return
		}
		<-done
		if errA != nil {
			r.Count("observed:add-vs-train:add-refused", 1)
			return
		}
		s.Flush()
		a := searchAllModalities(s, p)
		if a.Err == nil && a.Text[d.ID] && a.Vec[d.ID] && a.Meta[d.ID] {
			r.Count("observed:add-vs-train:acknowledged-add-visible", 1)
		} else {
			r.Count("observed:add-vs-train:acknowledged-add-LOST(outside every quantifier, not judged)", 1)
		}
		r.Eval(true, ev.Digest("t3d", ci))
	})
	// (iv) Close while the background compaction worker is between writing the merged segment and swapping it in
	compactPoints := []string{"compact.begin", "crash:compact.create.hybrid", "crash:compact.written"}
	r.Cases("targeted-close-vs-compaction", r.Pick(1, 5)*len(compactPoints), func(ci int, rng *rand.Rand) {
		dir, err := os.MkdirTemp("", "verif-c11k-*")
		if err != nil {
			panic(err)
		}
		defer os.RemoveAll(dir)
		p := storeParams{VecKind: "flat", Text: true, Meta: true, Dim: 2, Metric: comet.Euclidean, CompactionThreshold: 2, MemtableSizeLimit: 1 << 20, FlushThreshold: 1 << 40}
		s, err := p.open(dir)
		if err != nil {
			return
		}
		point := compactPoints[ci%len(compactPoints)]
		fail := func(sig, what string, extra map[string]any) {
			r.ViolationAt("targeted-close-vs-compaction", ci, sig, fmt.Sprintf("compaction worker held at %s: %s", point, what), extra)
		}
		base := uint32(1<<28 + 1<<21 + ci<<8)
		for seg := 0; seg < 3; seg++ {
			d := genStoreDoc(rng, p, base+uint32(seg), "k")
			s.AddWithID(d.ID, d.Vec, d.Text, d.Meta)
			s.Flush()
		}
		closeDone := make(chan error, 1)
		started := make(chan struct{})
		var once sync.Once
		ctl.setTarget(point, 1, func(args []any) {
			once.Do(func() { close(started) })
			go func() { closeDone <- s.Close() }()
			time.Sleep(100 * time.Millisecond) // let Close get as far as it can while the worker is held here
		})
		s.TriggerCompaction()
		select {
		case <-started:
		case <-time.After(10 * time.Second):
			ctl.clearTarget()
			s.Close()
			r.Inconclusive("compaction worker did not reach " + point)
			return
		}
		select {
		case err := <-closeDone:
			if err != nil {
				fail("conc.store.close-error", err.Error(), nil)
			}
		case <-time.After(60 * time.Second):
			buf := make([]byte, 1<<20)
			dump := string(buf[:runtime.Stack(buf, true)])
			if goroutineDumpShowsCometDeadlock(dump) {
				fail("conc.store.deadlock", "Close called while a compaction was in progress never returned; every goroutine inside comet is parked on a sync primitive", map[string]any{"goroutine_dump": trimTo(dump, 12000)})
			} else {
				r.Inconclusive("Close vs compaction watchdog fired without a provable wait cycle")
			}
			ctl.clearTarget()
			return
		}
		ctl.clearTarget()
		if s2, err := p.open(dir); err != nil {
			fail("conc.store.open-error", "reopen after Close raced with a compaction: "+err.Error(), nil)
		} else {
			s2.Close()
		}
		r.Count("targeted:close-vs-compaction:"+point, 1)
		r.Eval(true, ev.Digest("t4", point, ci))
	})
	for p, c := range ctl.snapshotCounts() {
		if strings.HasPrefix(p, "memq.") || strings.HasPrefix(p, "flush.") || strings.HasPrefix(p, "close.") || strings.HasPrefix(p, "search.") || strings.HasPrefix(p, "memtable.") {
			r.Count("hook-hits:"+p, c)
		}
	}
}

// c11RaceLog turns race-detector reports with comet frames into violations.
func c11RaceLog(r *ev.Run) {
	base := os.Getenv("VERIF_RACELOG")
	if base == "" {
		r.Inconclusive("VERIF_RACELOG not set: race reports cannot be collected")
		return
	}
	files, _ := filepath.Glob(base + ".*")
	total := 0
	distinct := map[string]string{}
	for _, f := range files {
		fh, err := os.Open(f)
		if err != nil {
			continue
		}
		sc := bufio.NewScanner(fh)
		sc.Buffer(make([]byte, 1<<20), 1<<22)
		var block []string
		flush := func() {
			if len(block) == 0 {
				return
			}
			text := strings.Join(block, "\n")
			block = nil
			if !strings.Contains(text, "WARNING: DATA RACE") {
				return
			}
			total++
			if !strings.Contains(text, "github.com/wizenheimer/comet") {
				return
			}
			// key = the comet functions involved, line numbers stripped
			var fns []string
			for _, l := range strings.Split(text, "\n") {
				l = strings.TrimSpace(l)
				if strings.HasPrefix(l, "github.com/wizenheimer/comet.") {
					fn := l
					if k := strings.LastIndex(l, "("); k > 0 {
						fn = l[:k]
					}
					fns = append(fns, fn)
				}
			}
			key := strings.Join(uniqueHead(fns, 4), " | ")
			if _, ok := distinct[key]; !ok {
				distinct[key] = trimTo(text, 6000)
			}
		}
		for sc.Scan() {
			line := sc.Text()
			if strings.HasPrefix(line, "==================") {
				flush()
				continue
			}
			block = append(block, line)
		}
		flush()
		fh.Close()
	}
	r.Count("race-reports-total", int64(total))
	r.Count("race-reports-distinct-with-comet-frames", int64(len(distinct)))
	keys := make([]string, 0, len(distinct))
	for k := range distinct {
		keys = append(keys, k)
	}
	sort.Strings(keys)
	for i, k := range keys {
		r.ViolationAt("race-log", i, "race."+sanitizeSig(k), "data race reported by the Go race detector: "+k, map[string]any{"report": distinct[k]})
	}
}

func uniqueHead(l []string, n int) []string {
	seen := map[string]bool{}
	var out []string
	for _, x := range l {
		if !seen[x] {
			seen[x] = true
			out = append(out, strings.TrimPrefix(x, "github.com/wizenheimer/comet."))
		}
		if len(out) >= n {
			break
		}
	}
	return out
}

func sanitizeSig(s string) string {
	var b strings.Builder
	for _, c := range s {
		switch {
		case c >= 'a' && c <= 'z', c >= 'A' && c <= 'Z', c >= '0' && c <= '9', c == '.', c == '_':
			b.WriteRune(c)
		case c == '|':
			b.WriteByte('+')
		}
	}
	if b.Len() > 120 {
		return b.String()[:120]
	}
	return b.String()
}
