package mon

import (
	"bytes"
	"math"

	"fmt"
	"github.com/wizenheimer/comet"
	"io"
	"math/rand/v2"
	"regexp"
	"strings"
	"testing/iotest"

	"verif/internal/ev"
)

func init() { register("C07", "exploration", runC07) }

var sentinel = []byte{0xDE, 0xAD, 0xBE, 0xEF, 0x01, 0x02, 0x03, 0x04}

func diffAnswers(a, b []string) string {
	if len(a) != len(b) {
		return fmt.Sprintf("%d vs %d answers", len(a), len(b))
	}
	for i := range a {
		if a[i] != b[i] {
			x, y := a[i], b[i]
			if len(x) > 300 {
				x = x[:300] + "…"
			}
			if len(y) > 300 {
				y = y[:300] + "…"
			}
			return fmt.Sprintf("\n   source:   %s\n   reloaded: %s", x, y)
		}
	}
	return ""
}

func runC07(r *ev.Run) {
	r.Rule = "case = one reachable state of one of the 8 index kinds (parameters, metric, train/add/remove/flush history incl. empty, untrained, all-removed, numeric field with every carrier removed); " +
		"the state is written once, read back through bytes.Reader, OneByteReader and DataErrReader each followed by an 8-byte sentinel (exact consumption), byte counts compared with the stream length, " +
		"a fixed battery of complete answers compared source-vs-reloaded and source-before-vs-after WriteTo, then an identical continuation history is applied to source and reloaded index and the battery compared again; " +
		"non-trivial = state holds >=1 live document and the battery returned >=1 result; distinct by (kind, state digest)"
	r.Assumptions = []string{"differential oracle source vs reloaded (the source's own correctness is C01-C06)", "node-id queries are excluded for PQ/IVFPQ (raw vectors are not persisted by design)",
		"HNSW states are kept inside the exact regime so that a continuation with fresh random levels cannot legally change an answer"}
	n := r.Pick(320, 8000)
	r.CasesParallel("state", n, 16, func(ci int, rng *rand.Rand) {
		kind := serKindNames[ci%len(serKindNames)]
		st, err := buildSerState(rng, kind, true)
		if err != nil {
			r.ViolationAt("state", ci, "ser.setup", fmt.Sprintf("%s: %v", kind, err), nil)
			return
		}
		rep := func(sig, what string) {
			r.ViolationAt("state", ci, sig, st.desc+": "+what, map[string]any{"kind": kind, "state": st.desc})
		}
		before := st.answer(st.source)
		data, nw, _, err := serialise(st)
		if err != nil {
			rep("ser."+kind+".write-error", err.Error())
			return
		}
		if st.countsBytes && nw != int64(len(data)) {
			rep("ser."+kind+".write-count", fmt.Sprintf("WriteTo returned %d but wrote %d bytes", nw, len(data)))
		}
		after := st.answer(st.source)
		if d := diffAnswers(before, after); d != "" {
			sig := "ser." + kind + ".write-changes-source"
			// The one shape recorded as a known finding: BM25 statistics (N, df, average length) still count
			// soft-deleted documents until the next Flush (C03) and WriteTo flushes implicitly, so with pending
			// text deletions the same documents come back with shifted scores. Anything else keeps the bare signature.
			if st.pendingTextDeletes && diffAnswers(stripScores(before), stripScores(after)) == "" {
				sig += ".bm25-scores-shift-by-implicit-flush-of-pending-deletes"
			}
			rep(sig, "WriteTo changed what the source returns: "+d)
		}
		nonEmpty := false
		for _, a := range after {
			if len(a) > 0 && a[len(a)-1] != ' ' && !bytes.HasSuffix([]byte(a), []byte(": ")) && !bytes.HasSuffix([]byte(a), []byte("[]")) {
				nonEmpty = true
			}
		}
		readers := []struct {
			name string
			mk   func([]byte) io.Reader
		}{
			{"bytes.Reader", func(b []byte) io.Reader { return bytes.NewReader(b) }},
			{"OneByteReader", func(b []byte) io.Reader { return iotest.OneByteReader(bytes.NewReader(b)) }},
			{"DataErrReader", func(b []byte) io.Reader { return iotest.DataErrReader(bytes.NewReader(b)) }},
		}
		var reloaded any
		for _, rd := range readers {
			recv := st.fresh()
			full := append(append([]byte(nil), data...), sentinel...)
			base := bytes.NewReader(full)
			var src io.Reader = base
			switch rd.name {
			case "OneByteReader":
				src = iotest.OneByteReader(base)
			case "DataErrReader":
				src = iotest.DataErrReader(base)
			}
			nr, err := recv.read(src)
			if err != nil {
				rep("ser."+kind+".read-error", fmt.Sprintf("ReadFrom(%s) of a valid stream: %v", rd.name, err))
				continue
			}
			if nr != int64(len(data)) {
				rep("ser."+kind+".read-count", fmt.Sprintf("ReadFrom(%s) returned %d for a %d-byte stream", rd.name, nr, len(data)))
			}
			rest, _ := io.ReadAll(base)
			// (iotest.DataErrReader reads ahead by itself, so exact consumption is only observable through the other two)
			if rd.name != "DataErrReader" && !bytes.Equal(rest, sentinel) {
				rep("ser."+kind+".consumption", fmt.Sprintf("ReadFrom(%s) left %d bytes unread/over-read (want exactly the 8-byte sentinel)", rd.name, len(rest)))
			}
			got := st.answer(recv.obj)
			if d := diffAnswers(after, got); d != "" {
				rep("ser."+kind+".answers-differ", fmt.Sprintf("reloaded via %s answers differently: %s", rd.name, d))
			}
			reloaded = recv.obj
			r.Count("roundtrips:"+rd.name, 1)
		}
		// two streams back to back in one reader: the first read must stop exactly at its own end
		if reloaded != nil {
			both := append(append([]byte(nil), data...), data...)
			base := bytes.NewReader(both)
			r1, r2 := st.fresh(), st.fresh()
			if _, err := r1.read(base); err != nil {
				rep("ser."+kind+".concatenated", "first of two concatenated streams: "+err.Error())
			} else if _, err := r2.read(base); err != nil {
				rep("ser."+kind+".concatenated", "second of two concatenated streams: "+err.Error())
			} else if d := diffAnswers(after, st.answer(r2.obj)); d != "" {
				rep("ser."+kind+".concatenated", "second of two concatenated streams answers differently: "+d)
			}
			r.Count("roundtrips:concatenated", 1)
		}
		// writing is repeatable: a SECOND WriteTo of the same, untouched source gives a stream that loads to the same
		// answers (bytes are not compared: map-backed kinds may order their entries differently), and so does a
		// second-generation stream written by the reloaded index
		if reloaded != nil {
			for gen, src := range []*serState{st, nil} {
				var data2 []byte
				var err error
				if src != nil {
					data2, _, _, err = serialise(st)
				} else {
					var buf bytes.Buffer
					if w, ok := reloaded.(interface {
						WriteTo(io.Writer) (int64, error)
					}); ok {
						_, err = w.WriteTo(&buf)
						data2 = buf.Bytes()
					} else {
						continue // multi-writer kinds (hybrid) are re-written through serialise only
					}
				}
				what := []string{"second WriteTo of the source", "WriteTo of the reloaded index"}[gen]
				if err != nil {
					rep("ser."+kind+".rewrite", what+": "+err.Error())
					continue
				}
				r2 := st.fresh()
				if _, err := r2.read(bytes.NewReader(data2)); err != nil {
					rep("ser."+kind+".rewrite", what+" does not load: "+err.Error())
				} else if d := diffAnswers(after, st.answer(r2.obj)); d != "" {
					rep("ser."+kind+".rewrite", what+" loads to different answers: "+d)
				}
				r.Count("roundtrips:"+what, 1)
				// "removed documents absent from the stream": what was loaded from the stream holds nothing that a Flush
				// could still drop — flushing the reloaded index and writing it again gives a stream of the same length
				// (pending tombstones that travelled with the stream, and the entries behind them, would make it shorter)
				if gen == 1 {
					if fl, ok := reloaded.(interface{ Flush() error }); ok {
						if err := fl.Flush(); err == nil {
							var b3 bytes.Buffer
							if _, err := reloaded.(interface {
								WriteTo(io.Writer) (int64, error)
							}).WriteTo(&b3); err == nil {
								if b3.Len() != len(data2) {
									rep("ser."+kind+".removed-documents-in-stream", fmt.Sprintf("the reloaded index writes %d bytes, and %d bytes after a Flush: the stream carried entries that a Flush drops (removed documents)", len(data2), b3.Len()))
								}
								r.Count("roundtrips:reloaded-flush-rewrite-same-length", 1)
							}
						}
					}
				}
			}
		}
		// continuation
		if reloaded != nil {
			nOps := 5 + rng.IntN(20)
			st.mutate(r.Rng("cont", ci), st.source, nOps)
			st.mutate(r.Rng("cont", ci), reloaded, nOps)
			a, b := st.answer(st.source), st.answer(reloaded)
			if d := diffAnswers(a, b); d != "" {
				if r.Verbose() && kind == "hnsw" {
					for name, x := range map[string]any{"source": st.source, "reloaded": reloaded} {
						g := comet.VerifHNSWGraph(x.(*comet.HNSWIndex))
						fmt.Printf("DEBUG %s: entry=%d maxLevel=%d deleted=%v\n", name, g.EntryPoint, g.MaxLevel, g.Deleted)
						for id, n := range g.Nodes {
							fmt.Printf("DEBUG   node %d level=%d edges=%v vec=%v\n", id, n.Level, n.Edges, n.Vector)
						}
					}
				}
				rep("ser."+kind+".continuation-differs", fmt.Sprintf("after %d further ops source and reloaded index answer differently: %s", nOps, d))
			}
			r.Count("continuations", 1)
		}
		if r.WantSample() && ci%80 < 8 && ci%9 == 0 {
			r.Sample(map[string]any{"kind": kind, "state": st.desc, "stream_bytes": len(data)})
		}
		r.Count("states:"+kind, 1)
		r.Eval(nonEmpty, ev.Digest(kind, st.desc, len(data), ci))
	})
	// large states: length fields beyond the usual pre-allocation caps / block sizes (2^14 vectors and more)
	r.Cases("large", r.Pick(2, 6), func(ci int, rng *rand.Rand) {
		n := []int{1<<14 + 100, 1<<15 + 3, 1<<16 + 1, 20000, 1<<14 + 1, 70000}[ci%6]
		dim := 2 + ci%2
		metric := allMetrics[ci%3]
		src, err := comet.NewFlatIndex(dim, metric)
		if err != nil {
			r.ViolationAt("large", ci, "ser.setup", err.Error(), nil)
			return
		}
		rep := func(sig, what string) {
			r.ViolationAt("large", ci, sig, fmt.Sprintf("flat %s dim=%d n=%d: %s", metric, dim, n, what), nil)
		}
		for i := 0; i < n; i++ {
			v := make([]float32, dim)
			for j := range v {
				v[j] = float32(rng.NormFloat64())
			}
			v[0] += 0.01
			if err := src.Add(*comet.NewVectorNodeWithID(uint32(i+1), v)); err != nil {
				rep("ser.flat.add-error", err.Error())
				return
			}
		}
		for i := 0; i < 50; i++ {
			src.Remove(*comet.NewVectorNodeWithID(uint32(1+rng.IntN(n)), nil))
		}
		var buf bytes.Buffer
		nw, err := src.WriteTo(&buf)
		if err != nil || nw != int64(buf.Len()) {
			rep("ser.flat.write-count", fmt.Sprintf("WriteTo returned %d, %v for %d bytes", nw, err, buf.Len()))
			return
		}
		dst, _ := comet.NewFlatIndex(dim, metric)
		full := append(append([]byte(nil), buf.Bytes()...), sentinel...)
		rd := bytes.NewReader(full)
		nr, err := dst.ReadFrom(rd)
		if err != nil {
			rep("ser.flat.read-error", "ReadFrom of a valid large stream: "+err.Error())
			return
		}
		if nr != int64(buf.Len()) {
			rep("ser.flat.read-count", fmt.Sprintf("ReadFrom returned %d for a %d-byte stream", nr, buf.Len()))
		}
		if rest, _ := io.ReadAll(rd); !bytes.Equal(rest, sentinel) {
			rep("ser.flat.consumption", fmt.Sprintf("ReadFrom left %d bytes (want exactly the 8-byte sentinel)", len(rest)))
		}
		for t := 0; t < 4; t++ {
			q := make([]float32, dim)
			for j := range q {
				q[j] = float32(rng.NormFloat64())
			}
			q[0] += 0.5
			a, e1 := src.NewSearch().WithQuery(cloneF32(q)).WithK(0).Execute()
			b, e2 := dst.NewSearch().WithQuery(cloneF32(q)).WithK(0).Execute()
			if e1 != nil || e2 != nil || len(a) != len(b) {
				rep("ser.flat.answers-differ", fmt.Sprintf("complete listing: source %d results / %v, reloaded %d / %v", len(a), e1, len(b), e2))
				break
			}
			for i := range a {
				if math.Float32bits(a[i].GetScore()) != math.Float32bits(b[i].GetScore()) {
					rep("ser.flat.answers-differ", fmt.Sprintf("rank %d: source score %g, reloaded %g", i, a[i].GetScore(), b[i].GetScore()))
					break
				}
			}
		}
		r.Count("roundtrips:large-flat", 1)
		r.Eval(true, ev.Digest("large", n, dim, metric))
	})
	c07Extra(r)
}

// c07Wide: a few vectors of a dimension beyond the usual block sizes (1024 components and more, no multiple of them);
// c07HybridTrained: a hybrid index over a TRAINED quantising / clustering vector index that holds no vector at the time
// it is written (text- or metadata-only documents, every vector document removed, nothing at all): the reloaded index is
// trained like its source and goes on accepting what the source accepts.
func c07Extra(r *ev.Run) {
	r.Cases("wide", r.Pick(6, 30), func(ci int, rng *rand.Rand) {
		dim := []int{1025, 1100, 1536, 2049, 3000, 4097}[ci%6]
		metric := allMetrics[(ci/2)%3]
		rep := func(sig, what string) {
			r.ViolationAt("wide", ci, sig, fmt.Sprintf("flat %s dim=%d: %s", metric, dim, what), nil)
		}
		src, err := comet.NewFlatIndex(dim, metric)
		if err != nil {
			rep("ser.setup", err.Error())
			return
		}
		n := 2 + rng.IntN(6)
		for i := 0; i < n; i++ {
			v := make([]float32, dim)
			for j := range v {
				v[j] = float32(rng.NormFloat64())
			}
			if err := src.Add(*comet.NewVectorNodeWithID(uint32(i+1), v)); err != nil {
				rep("ser.flat.add-error", err.Error())
				return
			}
		}
		var buf bytes.Buffer
		nw, err := src.WriteTo(&buf)
		if err != nil || nw != int64(buf.Len()) {
			rep("ser.flat.write-count", fmt.Sprintf("WriteTo returned %d, %v for %d bytes", nw, err, buf.Len()))
			return
		}
		dst, _ := comet.NewFlatIndex(dim, metric)
		nr, err := dst.ReadFrom(bytes.NewReader(buf.Bytes()))
		if err != nil || nr != int64(buf.Len()) {
			rep("ser.flat.read-error", fmt.Sprintf("ReadFrom of a valid stream: n=%d of %d, %v", nr, buf.Len(), err))
			return
		}
		for t := 0; t < 4; t++ {
			q := make([]float32, dim)
			for j := range q {
				q[j] = float32(rng.NormFloat64())
			}
			a, e1 := src.NewSearch().WithQuery(cloneF32(q)).WithK(0).Execute()
			b, e2 := dst.NewSearch().WithQuery(cloneF32(q)).WithK(0).Execute()
			if e1 != nil || e2 != nil || len(a) != len(b) {
				rep("ser.flat.answers-differ", fmt.Sprintf("complete listing: source %d results / %v, reloaded %d / %v", len(a), e1, len(b), e2))
				break
			}
			for i := range a {
				if a[i].GetId() != b[i].GetId() || math.Float32bits(a[i].GetScore()) != math.Float32bits(b[i].GetScore()) {
					rep("ser.flat.answers-differ", fmt.Sprintf("rank %d: source %d:%g, reloaded %d:%g", i, a[i].GetId(), a[i].GetScore(), b[i].GetId(), b[i].GetScore()))
					break
				}
			}
		}
		r.Count("roundtrips:wide-flat", 1)
		r.Eval(true, ev.Digest("wide", dim, metric, n))
	})
	r.Cases("hybrid-trained", r.Pick(18, 180), func(ci int, rng *rand.Rand) {
		kind := []string{"ivf", "pq", "ivfpq"}[ci%3]
		shape := (ci / 3) % 3 // 0 nothing at all, 1 text / metadata-only documents, 2 vector documents all removed again
		metric := allMetrics[rng.IntN(3)]
		const dim = 4
		rep := func(sig, what string) {
			r.ViolationAt("hybrid-trained", ci, sig, fmt.Sprintf("hybrid over trained %s (%s), shape %d: %s", kind, metric, shape, what), nil)
		}
		train := make([]comet.VectorNode, 0, 300)
		for i := 0; i < 300; i++ {
			v := make([]float32, dim)
			for j := range v {
				v[j] = float32(rng.NormFloat64())
			}
			v[0] += float32(i%3) * 5
			train = append(train, *comet.NewVectorNodeWithID(uint32(1000+i), v))
		}
		mk := func(trainIt bool) (comet.HybridSearchIndex, comet.VectorIndex, error) {
			var vi comet.VectorIndex
			var err error
			switch kind {
			case "ivf":
				vi, err = comet.NewIVFIndex(dim, 3, metric)
			case "pq":
				vi, err = comet.NewPQIndex(dim, metric, 2, 4)
			default:
				vi, err = comet.NewIVFPQIndex(dim, metric, 3, 2, 4)
			}
			if err != nil {
				return nil, nil, err
			}
			if trainIt {
				cp := make([]comet.VectorNode, len(train))
				for i, t := range train {
					cp[i] = *comet.NewVectorNodeWithID(t.ID(), cloneF32(t.Vector()))
				}
				if err := vi.Train(cp); err != nil {
					return nil, nil, err
				}
			}
			return comet.NewHybridSearchIndex(vi, comet.NewBM25SearchIndex(), comet.NewRoaringMetadataIndex()), vi, nil
		}
		src, _, err := mk(true)
		if err != nil {
			rep("ser.setup", err.Error())
			return
		}
		vec := func() []float32 {
			v := make([]float32, dim)
			for j := range v {
				v[j] = float32(rng.NormFloat64())
			}
			v[0] += 0.25
			return v
		}
		id := uint32(1 << 24)
		if shape == 1 {
			for i := 0; i < 1+rng.IntN(4); i++ {
				id++
				if err := src.AddWithID(id, nil, "alpha beta", map[string]any{"kind": "doc"}); err != nil {
					rep("ser.setup", err.Error())
					return
				}
			}
		}
		if shape == 2 {
			var added []uint32
			for i := 0; i < 1+rng.IntN(4); i++ {
				id++
				if err := src.AddWithID(id, vec(), "alpha", nil); err != nil {
					rep("ser.setup", err.Error())
					return
				}
				added = append(added, id)
			}
			for _, a := range added {
				src.Remove(a)
			}
			if rng.IntN(2) == 0 {
				src.Flush()
			}
		}
		var buf bytes.Buffer
		if _, err := hybridWriteAll(src, &buf); err != nil {
			rep("ser.hybrid.write-error", err.Error())
			return
		}
		// the receiver: the same construction; trained or not (an untrained receiver takes its training from the stream)
		dst, _, err := mk(rng.IntN(2) == 0)
		if err != nil {
			rep("ser.setup", err.Error())
			return
		}
		rd := bytes.NewReader(buf.Bytes())
		if _, err := dst.ReadFrom(rd); err != nil {
			rep("ser.hybrid.read-error", "ReadFrom of a valid stream: "+err.Error())
			return
		}
		// continuation: both accept the same documents and answer alike
		for i := 0; i < 3+rng.IntN(4); i++ {
			id++
			v := vec()
			e1 := src.AddWithID(id, cloneF32(v), "gamma", map[string]any{"kind": "new"})
			e2 := dst.AddWithID(id, cloneF32(v), "gamma", map[string]any{"kind": "new"})
			if (e1 == nil) != (e2 == nil) {
				rep("ser.hybrid.continuation-differs", fmt.Sprintf("AddWithID(%d, vector, text, metadata): source answers %v, reloaded index answers %v", id, e1, e2))
				return
			}
		}
		q := vec()
		answer := func(h comet.HybridSearchIndex) (map[uint32]float64, error) {
			res, err := h.NewSearch().WithVector(cloneF32(q)).WithK(1 << 20).WithNProbes(3).Execute()
			out := map[uint32]float64{}
			for _, x := range res {
				out[x.ID] = float64(x.Score)
			}
			return out, err
		}
		a, e1 := answer(src)
		b, e2 := answer(dst)
		if (e1 == nil) != (e2 == nil) || len(a) != len(b) {
			rep("ser.hybrid.continuation-differs", fmt.Sprintf("vector query after the continuation: source %d results / %v, reloaded %d / %v", len(a), e1, len(b), e2))
			return
		}
		for k, sa := range a {
			if sb, ok := b[k]; !ok || math.Abs(sa-sb) > 1e-4*(1+math.Abs(sa)) {
				rep("ser.hybrid.continuation-differs", fmt.Sprintf("vector query after the continuation: id %d source score %g, reloaded %v (present %v)", k, sa, sb, ok))
				return
			}
		}
		r.Count("roundtrips:hybrid-over-trained-"+kind, 1)
		r.Eval(len(a) > 0, ev.Digest("hybrid-trained", kind, shape, metric, ci))
	})
}

var scoreRe = regexp.MustCompile(`:[-+0-9.eE]+(NaN|Inf)?`)

// stripScores keeps ids and drops scores from canonical answers.
func stripScores(a []string) []string {
	out := make([]string, len(a))
	for i, x := range a {
		k := strings.Index(x, "err=")
		if k < 0 {
			k = 0
		}
		out[i] = x[:k] + scoreRe.ReplaceAllString(x[k:], "")
	}
	return out
}
