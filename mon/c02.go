package mon

import (
	"fmt"
	"math"
	"math/rand/v2"

	"github.com/wizenheimer/comet"

	"verif/internal/ev"
)

func init() { register("C02", "exploration", runC02) }

// vecProbeOpts are the kind-specific search overrides.
type vecProbeOpts struct {
	NProbes int
	Ef      int
}

func (s *vecSUT) search(o vecProbeOpts) comet.VectorSearch {
	x := s.idx.NewSearch()
	if s.kind == "ivf" || s.kind == "ivfpq" {
		x = x.WithNProbes(o.NProbes)
	}
	if s.kind == "hnsw" && o.Ef != 0 {
		x = x.WithEfSearch(o.Ef)
	}
	return x
}

func (s *vecSUT) genProbeOpts(rng *rand.Rand) vecProbeOpts {
	var o vecProbeOpts
	if s.nlist > 0 {
		o.NProbes = []int{-1, 0, 1, s.nlist, s.nlist + 3, 1 + rng.IntN(s.nlist)}[rng.IntN(6)]
	}
	if s.kind == "hnsw" {
		o.Ef = []int{0, -1, s.hM, 4 * s.hEf, 1000}[rng.IntN(5)]
	}
	return o
}

// exhaustive reports whether the kind searches every live vector under these options.
func (s *vecSUT) exhaustive(o vecProbeOpts) bool {
	switch s.kind {
	case "flat", "pq":
		return true
	case "ivf", "ivfpq":
		return o.NProbes <= 0 || o.NProbes >= s.nlist
	}
	return false
}

func sameListing(a, b *listing) (bool, string) {
	if len(a.ids) != len(b.ids) {
		return false, fmt.Sprintf("%d vs %d results", len(a.ids), len(b.ids))
	}
	for id, sa := range a.scoreOf {
		sb, ok := b.scoreOf[id]
		if !ok {
			return false, fmt.Sprintf("id %d only in one answer", id)
		}
		if math.Float32bits(sa) != math.Float32bits(sb) {
			return false, fmt.Sprintf("id %d score %g vs %g", id, sa, sb)
		}
	}
	return true, ""
}

func runC02(r *ev.Run) {
	r.Rule = "case = (kind in flat/hnsw/ivf/pq/ivfpq, metric, construction parameters, generated Add/Remove/Flush history over distinct ids); after every op queries are answered completely " +
		"(checked against the kind's definition: live ids of the searched clusters, true distance or ADC recomputed from codebooks read via the verif accessors) and restricted (k/threshold/id restriction, exact vs the complete listing), " +
		"plus node-id == stored-vector search, unknown/removed node id => error, multi-query == rule(single answers), flush-invariance of exhaustive kinds; " +
		"non-trivial = history has a removal and a flush and a non-empty answer; distinct by (kind, params, history digest) Since the seed waves: as C01 (large indexes, update histories, rejected adds, empty-index prelude, double Flush, held and re-executed search objects, WithCutoff, exact-nlist training, training buffers overwritten after Train, Train twice)."
	r.Assumptions = []string{"PQ/IVFPQ expected scores are recomputed in float64 from the codebooks/centroids/codes the index itself holds (read-only accessors)",
		"IVF probe set: all legal choices among bit-equal centroid-distance ties are accepted", "HNSW: soundness clauses only here (exactness/reachability are C12)"}
	n := r.Pick(200, 5000)
	aggs := []comet.ScoreAggregationKind{comet.SumAggregation, comet.MaxAggregation, comet.MeanAggregation}
	r.CasesParallel("history", n, 16, func(ci int, rng *rand.Rand) {
		kind := vecKindNames[ci%5]
		metric := allMetrics[rng.IntN(3)]
		s, vg, err := newVecSUT(rng, kind, metric, func(dim int) *vecGen { return newVecGen(rng, dim) }, []int{2, 4, 8})
		if err != nil {
			r.ViolationAt("history", ci, kind+".setup", fmt.Sprintf("%s %s: %v", kind, s.params, err), nil)
			return
		}
		m := newVecModel(metric, s.dim)
		ids := newIDGen(rng)
		var hist []histOp
		rep := func(sig, what string) {
			h := hist
			if len(h) > 40 {
				h = h[len(h)-40:]
			}
			r.ViolationAt("history", ci, sig, fmt.Sprintf("%s %s %s: %s", kind, metric, s.params, what),
				map[string]any{"kind": kind, "metric": metric, "params": s.params, "history_tail": h})
		}
		removals, flushes, nonEmpty := 0, 0, 0
		complete := func(q []float32, o vecProbeOpts) *listing {
			res, err := s.search(o).WithQuery(cloneF32(q)).WithK(0).Execute()
			if err != nil {
				rep(kind+".search-error", err.Error())
				return nil
			}
			return toListing(res)
		}
		var held *heldSearch
		probe := func() {
			// one long-lived search object per case (fixed nprobes / efSearch), re-configured and executed while the index
			// changes under it, compared with a fresh object given the same setter calls
			if held == nil || rng.IntN(8) == 0 {
				ho := s.genProbeOpts(rng)
				held = newHeldSearch(func() comet.VectorSearch { return s.search(ho) })
				hq := vg.query()
				held.step("WithQuery", func(x comet.VectorSearch) comet.VectorSearch { return x.WithQuery(cloneF32(hq)) })
			} else {
				heldSearchStep(rng, held, vg.query(), m.liveIDs(), len(m.live))
			}
			if !held.compare(rep, kind) {
				held = nil
			}
			r.Count("probes:held-search-object", 1)
			nq := 1 + rng.IntN(3)
			for qi := 0; qi < nq; qi++ {
				q := vg.query()
				o := s.genProbeOpts(rng)
				full := complete(q, o)
				if full == nil {
					continue
				}
				e, err := s.expect(q, m, o.NProbes)
				if err != nil {
					rep(kind+".oracle-error", err.Error())
					continue
				}
				if checkListingAlts(rep, kind+".full", full, m.live, e) {
					r.Count("probes:soundness-only("+e.note+")", 1)
				} else {
					r.Count("probes:complete:"+kind, 1)
				}
				if len(full.ids) > 0 {
					nonEmpty++
				}
				for _, v := range genVariants(rng, full, m, ids, 3) {
					bq := applyOpts(s.search(o).WithQuery(cloneF32(q)), v)
					got, err := bq.Execute()
					if err == nil && rng.IntN(4) == 0 {
						checkReexecute(rep, kind, bq, got)
						r.Count("probes:re-executed-search-object", 1)
					}
					if err != nil {
						rep(kind+".search-error", err.Error())
						continue
					}
					checkVariant(rep, kind+".variant", full, got, v)
					r.Count("probes:restricted", 1)
				}
			}
			live := m.liveIDs()
			// node-id search == stored-vector search
			if len(live) > 0 && rng.IntN(2) == 0 {
				id := live[rng.IntN(len(live))]
				o := s.genProbeOpts(rng)
				byNode, err1 := s.search(o).WithNode(id).WithK(0).Execute()
				byVec, err2 := s.search(o).WithQuery(cloneF32(m.raw[id])).WithK(0).Execute()
				if err1 != nil || err2 != nil {
					rep(kind+".node.search-error", fmt.Sprintf("WithNode(%d): %v / WithQuery(stored): %v", id, err1, err2))
				} else {
					a, b := toListing(byNode), toListing(byVec)
					if s.exhaustive(o) && len(a.ids) != len(b.ids) {
						rep(kind+".node.differs", fmt.Sprintf("WithNode(%d) returned %d results, WithQuery(stored vector) %d", id, len(a.ids), len(b.ids)))
					}
					for nid, sa := range a.scoreOf {
						if sb, ok := b.scoreOf[nid]; ok {
							tol := 4*distTol(metric, s.dim, math.Abs(float64(sb))) + 1e-6
							if math.Abs(float64(sa)-float64(sb)) > tol {
								rep(kind+".node.differs", fmt.Sprintf("WithNode(%d): id %d score %g, WithQuery(stored vector) gives %g", id, nid, sa, sb))
								break
							}
						} else if s.exhaustive(o) {
							rep(kind+".node.differs", fmt.Sprintf("WithNode(%d) returns id %d, WithQuery(stored vector) does not", id, nid))
							break
						}
					}
					// HNSW outside its exact regime: the graph walk is deterministic (no randomness, no map iteration), so for the
					// L2 metrics — where the stored vector IS the caller's vector, bit for bit — the node-id search and the
					// stored-vector search are the same computation and return the same ids. (Cosine re-normalises an already
					// normalised vector, which may move a last bit and with it a tie: not compared there.)
					if kind == "hnsw" && metric != comet.Cosine && !s.exhaustive(o) {
						if len(a.ids) != len(b.ids) {
							rep(kind+".node.differs", fmt.Sprintf("WithNode(%d) returned %d results, WithQuery(the bit-identical stored vector) %d (same ef, same graph)", id, len(a.ids), len(b.ids)))
						} else {
							for nid := range a.scoreOf {
								if _, ok := b.scoreOf[nid]; !ok {
									rep(kind+".node.differs", fmt.Sprintf("WithNode(%d) returns id %d, WithQuery(the bit-identical stored vector) does not (same ef, same graph)", id, nid))
									break
								}
							}
						}
						r.Count("probes:node-id-approximate-regime-same-walk", 1)
					}
					r.Count("probes:node-id", 1)
				}
			}
			// unknown / removed node id is an error
			if rng.IntN(3) == 0 {
				bad := ids.absent()
				if rm := sortedKeys(m.removed); len(rm) > 0 && rng.IntN(2) == 0 {
					bad = rm[rng.IntN(len(rm))]
				}
				if _, err := s.idx.NewSearch().WithNode(bad).Execute(); err == nil {
					rep(kind+".node.unknown-accepted", fmt.Sprintf("WithNode(%d) on an unknown/removed id returned no error", bad))
				}
				if len(live) > 0 {
					if _, err := s.idx.NewSearch().WithNode(live[0], bad).Execute(); err == nil {
						rep(kind+".node.unknown-accepted", fmt.Sprintf("WithNode(%d,%d) with one unknown/removed id returned no error", live[0], bad))
					}
				}
				r.Count("probes:bad-node-id", 1)
			}
			// multi-query == rule(single answers)
			if len(live) > 0 && rng.IntN(2) == 0 {
				o := s.genProbeOpts(rng)
				k := []int{0, 1, 2, 3, 10}[rng.IntN(5)]
				rule := aggs[rng.IntN(3)]
				nqs := rng.IntN(4)
				nnodes := rng.IntN(3)
				if nqs+nnodes == 0 {
					nqs = 2
				}
				var qs [][]float32
				var nodes []uint32
				for i := 0; i < nqs; i++ {
					qs = append(qs, vg.query())
				}
				for i := 0; i < nnodes; i++ {
					if i > 0 && rng.IntN(3) == 0 {
						nodes = append(nodes, nodes[0]) // the same node id twice is two queries
					} else {
						nodes = append(nodes, live[rng.IntN(len(live))])
					}
				}
				var v searchOpts
				if rng.IntN(3) == 0 {
					for _, id := range live {
						if rng.IntN(2) == 0 {
							v.DocIDs = append(v.DocIDs, id)
						}
					}
				}
				var per [][]comet.VectorResult
				okAll := true
				for _, q := range qs {
					x := s.search(o).WithQuery(cloneF32(q)).WithK(k)
					if v.DocIDs != nil {
						x = x.WithDocumentIDs(v.DocIDs...)
					}
					res, err := x.Execute()
					if err != nil {
						okAll = false
					}
					per = append(per, res)
				}
				for _, id := range nodes {
					x := s.search(o).WithNode(id).WithK(k)
					if v.DocIDs != nil {
						x = x.WithDocumentIDs(v.DocIDs...)
					}
					res, err := x.Execute()
					if err != nil {
						okAll = false
					}
					per = append(per, res)
				}
				x := s.search(o).WithK(k).WithScoreAggregation(rule)
				if len(qs) > 0 {
					cq := make([][]float32, len(qs))
					for i := range qs {
						cq[i] = cloneF32(qs[i])
					}
					x = x.WithQuery(cq...)
				}
				if len(nodes) > 0 {
					x = x.WithNode(nodes...)
				}
				if v.DocIDs != nil {
					x = x.WithDocumentIDs(v.DocIDs...)
				}
				got, err := x.Execute()
				if err != nil || !okAll {
					rep(kind+".multi.search-error", fmt.Sprintf("multi-query search failed: %v", err))
				} else {
					checkMultiQuery(rep, kind, rule, per, got, k)
					r.Count("probes:multi-query", 1)
				}
			}
		}
		if (ci/5)%4 == 1 {
			// the first operations on the fresh (trained) EMPTY index: search, Flush, a failing Remove
			probe()
			if err := s.idx.Flush(); err != nil {
				rep(kind+".flush-error", "Flush of an empty index: "+err.Error())
			}
			if err := s.idx.Remove(*comet.NewVectorNodeWithID(ids.absent(), nil)); err == nil {
				rep(kind+".remove-absent-succeeds", "Remove on an empty index returned nil")
			}
			probe()
			r.Count("cases:started-with-operations-on-the-empty-index", 1)
		}
		nOps := 8 + rng.IntN(40)
		// every tenth case of each kind starts from a large index whose size sits next to a power of two (see C01)
		if (ci/5)%10 == 7 {
			bulk := []int{255, 256, 257, 258, 259, 511, 513, 1022, 1025}[rng.IntN(9)]
			if kind != "hnsw" && rng.IntN(3) == 0 {
				// the scanning kinds also at a few thousand entries (work split into blocks / chunks of 1000 or 1024)
				bulk = []int{2047, 2050, 2900, 3001, 3999}[rng.IntN(5)]
			}
			nOps = 6 + rng.IntN(10)
			for i := 0; i < bulk; i++ {
				id, v := ids.next(), vg.fresh()
				if err := s.idx.Add(*comet.NewVectorNodeWithID(id, cloneF32(v))); err != nil {
					rep(kind+".add-error", fmt.Sprintf("bulk Add(%d): %v", id, err))
					return
				}
				m.add(id, v)
			}
			hist = append(hist, histOp{Op: fmt.Sprintf("bulk-add x%d", bulk)})
			r.Count("cases:large-index:"+kind, 1)
			r.Count("ops:add", int64(bulk))
		}
		for op := 0; op < nOps; op++ {
			c := rng.IntN(10)
			switch {
			case c < 5 || len(m.live) == 0:
				if rng.IntN(8) == 0 {
					// a rejected Add (wrong dimension; zero vector under cosine) leaves the index as it was
					bad := make([]float32, s.dim+1)
					for j := range bad {
						bad[j] = 1
					}
					what := "wrong dimension"
					if metric == comet.Cosine && rng.IntN(2) == 0 {
						bad, what = make([]float32, s.dim), "zero vector under cosine"
					}
					hist = append(hist, histOp{Op: "rejected-add (" + what + ")"})
					if err := s.idx.Add(*comet.NewVectorNodeWithID(ids.absent(), bad)); err == nil {
						rep(kind+".invalid-add-accepted", fmt.Sprintf("Add accepted a vector with %s", what))
						return
					}
					r.Count("ops:rejected-add", 1)
				}
				id, v := ids.next(), vg.fresh()
				hist = append(hist, histOp{Op: "add", ID: id, Vec: cloneF32(v)})
				if err := s.idx.Add(*comet.NewVectorNodeWithID(id, cloneF32(v))); err != nil {
					rep(kind+".add-error", fmt.Sprintf("Add(%d): %v", id, err))
					return
				}
				m.add(id, v)
				r.Count("ops:add", 1)
			case c < 8:
				live := m.liveIDs()
				id := live[rng.IntN(len(live))]
				hist = append(hist, histOp{Op: "remove", ID: id})
				if err := s.idx.Remove(*comet.NewVectorNodeWithID(id, nil)); err != nil {
					rep(kind+".remove-error", fmt.Sprintf("Remove(%d) of a live id: %v", id, err))
				}
				m.remove(id)
				removals++
				r.Count("ops:remove", 1)
				if rng.IntN(3) == 0 {
					// update = remove + add of the same id (no Flush), usually far away from the old vector
					v := vg.fresh()
					for j := range v {
						v[j] = -3*m.raw[id][j] + v[j]
					}
					nz := false
					for _, x := range v {
						if x != 0 {
							nz = true
						}
					}
					if !nz {
						v[0] = 1
					}
					if rng.IntN(4) == 0 {
						v = cloneF32(m.raw[id]) // the very same vector again
						r.Count("ops:re-add-with-unchanged-vector", 1)
					}
					hist = append(hist, histOp{Op: "re-add", ID: id, Vec: cloneF32(v)})
					if err := s.idx.Add(*comet.NewVectorNodeWithID(id, cloneF32(v))); err != nil {
						rep(kind+".readd-error", fmt.Sprintf("re-add of removed id %d: %v", id, err))
						return
					}
					m.add(id, v)
					r.Count("ops:re-add-removed-id", 1)
				}
			default:
				// flush-invariance of the exhaustive kinds
				var before []*listing
				var qs [][]float32
				o := vecProbeOpts{NProbes: 0}
				if s.kind != "hnsw" {
					for i := 0; i < 2; i++ {
						q := vg.query()
						qs = append(qs, q)
						before = append(before, complete(q, o))
					}
				}
				hist = append(hist, histOp{Op: "flush"})
				if err := s.idx.Flush(); err != nil {
					rep(kind+".flush-error", err.Error())
				}
				m.flush()
				flushes++
				r.Count("ops:flush", 1)
				if rng.IntN(3) == 0 { // idempotent
					if err := s.idx.Flush(); err != nil {
						rep(kind+".flush-error", "second Flush in a row: "+err.Error())
					}
					r.Count("ops:flush-twice-in-a-row", 1)
				}
				for i, q := range qs {
					after := complete(q, o)
					if before[i] != nil && after != nil {
						if same, why := sameListing(before[i], after); !same {
							rep(kind+".flush-changes-answer", "Flush changed the answer of an exhaustive search: "+why)
						}
						r.Count("probes:flush-invariance", 1)
					}
				}
			}
			probe()
		}
		if r.WantSample() && ci%45 < 5 {
			h := hist
			if len(h) > 6 {
				h = h[:6]
			}
			r.Sample(map[string]any{"kind": kind, "metric": metric, "params": s.params, "ops": len(hist), "history_head": h})
		}
		r.Count("histories:"+kind, 1)
		r.Eval(removals > 0 && flushes > 0 && nonEmpty > 0, ev.Digest(kind, metric, s.params, len(hist), ci))
	})
}
