package mon

import (
	"fmt"
	"math"
	"math/rand/v2"
	"sort"

	"github.com/wizenheimer/comet"

	"verif/internal/ev"
)

func init() { register("C05", "exploration", runC05) }

type hybridOp struct {
	Op   string         `json:"op"`
	ID   uint32         `json:"id,omitempty"`
	Vec  []float32      `json:"vec,omitempty"`
	Text string         `json:"text,omitempty"`
	Meta map[string]any `json:"meta,omitempty"`
}

// hybridSUT is a hybrid index over a flat vector index (so "exact" applies), BM25 and roaring metadata.
type hybridSUT struct {
	idx  comet.HybridSearchIndex
	flat *comet.FlatIndex
	bm   *comet.BM25SearchIndex
	meta *comet.RoaringMetadataIndex
}

func newHybridSUT(hasVec, hasTxt, hasMeta bool, dim int, metric comet.DistanceKind) (*hybridSUT, error) {
	s := &hybridSUT{}
	var vi comet.VectorIndex
	var ti comet.TextIndex
	var mi comet.MetadataIndex
	if hasVec {
		f, err := comet.NewFlatIndex(dim, metric)
		if err != nil {
			return nil, err
		}
		s.flat, vi = f, f
	}
	if hasTxt {
		s.bm = comet.NewBM25SearchIndex()
		ti = s.bm
	}
	if hasMeta {
		s.meta = comet.NewRoaringMetadataIndex()
		mi = s.meta
	}
	s.idx = comet.NewHybridSearchIndex(vi, ti, mi)
	return s, nil
}

// checkHybridAnswer compares one hybrid answer with the model's expectation.
func checkHybridAnswer(rep reporter, r *ev.Run, h *hybridModel, q hybridQuery, got []comet.HybridSearchResult, err error) {
	errWanted, alts, ambiguous, unsharp, cand, filtered := h.expect(q)
	if unsharp {
		r.Count("probes:open-corner-filter-on-unknown-field", 1)
		return
	}
	if errWanted {
		if err == nil && !(filtered && len(cand) == 0 && len(got) == 0) {
			rep("hybrid.unconfigured-modality-accepted", fmt.Sprintf("[%s] queries a modality that is not configured but no error was returned", q))
		}
		r.Count("probes:unconfigured-modality", 1)
		return
	}
	if err != nil {
		rep("hybrid.search-error", fmt.Sprintf("[%s]: %v", q, err))
		return
	}
	// soundness sentences (always)
	if len(got) > q.K {
		rep("hybrid.more-than-k", fmt.Sprintf("[%s]: %d results", q, len(got)))
	}
	seen := map[uint32]bool{}
	for i, g := range got {
		if seen[g.ID] {
			rep("hybrid.duplicate-id", fmt.Sprintf("[%s]: id %d twice", q, g.ID))
		}
		seen[g.ID] = true
		if !h.docs[g.ID] {
			rep("hybrid.non-live-id", fmt.Sprintf("[%s]: id %d is removed or was never added", q, g.ID))
		}
		if filtered && !ambiguous && !cand[g.ID] {
			rep("hybrid.filter-ignored", fmt.Sprintf("[%s]: id %d does not match the metadata filter", q, g.ID))
		}
		if i > 0 && got[i].Score > got[i-1].Score {
			rep("hybrid.order", fmt.Sprintf("[%s]: scores not descending at rank %d", q, i))
		}
	}
	if filtered && len(cand) == 0 && len(got) != 0 {
		rep("hybrid.empty-filter-nonempty-result", fmt.Sprintf("[%s]: filter matches nothing but %d results returned", q, len(got)))
	}
	if ambiguous {
		r.Count("probes:ambiguous-tie(soundness only)", 1)
		// rank ties inside a modality leave the RRF scores ambiguous, but only between the best and the worst legal
		// rank of each document: two tied documents cannot BOTH get the better position, nor can a document behind a
		// tie move up
		if h.lastOnlyRankTies && q.Fusion == comet.ReciprocalRankFusion && q.K > len(h.docs) && err == nil {
			vt := func(s float64) float64 { return 2 * distTol(h.metric, h.dim, s) }
			tt := func(s float64) float64 { return 1e-5*math.Abs(s) + 1e-9 }
			for _, g := range got {
				vlo, vhi := rrfRange(h.lastV, g.ID, true, q.RRFK, vt)
				tlo, thi := rrfRange(h.lastT, g.ID, false, q.RRFK, tt)
				if lo, hi := vlo+tlo, vhi+thi; g.Score < lo*(1-1e-9)-1e-12 || g.Score > hi*(1+1e-9)+1e-12 {
					rep("hybrid.score", fmt.Sprintf("[%s]: id %d has reciprocal-rank score %.12g, outside what any legal ordering of the tied candidates gives: [%.12g, %.12g]", q, g.ID, g.Score, lo, hi))
					break
				}
			}
			r.Count("probes:rrf-rank-ties(score within legal rank range)", 1)
		}
		return
	}
	tolOf := func(s float64) float64 {
		return 4*distTol(h.metric, h.dim, math.Abs(s)+1)*math.Max(1, q.WV) + 1e-5*math.Abs(s) + 1e-7
	}
	match := func(exp map[uint32]float64, report bool) bool {
		ok := true
		fail := func(sig, what string) {
			ok = false
			if report {
				rep(sig, what)
			}
		}
		var sorted []float64
		for _, s := range exp {
			sorted = append(sorted, s)
		}
		sort.Sort(sort.Reverse(sort.Float64Slice(sorted)))
		if len(sorted) > q.K {
			sorted = sorted[:q.K]
		}
		if len(got) != len(sorted) {
			fail("hybrid.length", fmt.Sprintf("[%s]: %d results, expected %d (model has %d scored documents)", q, len(got), len(sorted), len(exp)))
			return false
		}
		for i, g := range got {
			want, in := exp[g.ID]
			if !in {
				fail("hybrid.unexpected-id", fmt.Sprintf("[%s]: id %d is not among the k best vector / text matches inside the filtered set", q, g.ID))
				continue
			}
			if math.Abs(g.Score-want) > tolOf(want) {
				fail("hybrid.score", fmt.Sprintf("[%s]: id %d score %g, expected %g", q, g.ID, g.Score, want))
			}
			if math.Abs(g.Score-sorted[i]) > tolOf(sorted[i]) {
				fail("hybrid.not-top-k", fmt.Sprintf("[%s]: rank %d score %g, expected rank score %g", q, i, g.Score, sorted[i]))
				return false
			}
		}
		return ok
	}
	if len(alts) > 1 {
		for _, a := range alts {
			if match(a, false) {
				r.Count("probes:open-corner-one-side-empty", 1)
				return
			}
		}
		match(alts[0], true)
		return
	}
	if match(alts[0], true) {
		r.Count("probes:exact", 1)
	}
}

func runC05(r *ev.Run) {
	r.Rule = "case = (which of vector(flat)/text/metadata sub-indexes are configured, metric, 5-40 documents each with a random subset of modalities, add/remove/flush history); " +
		"after every few ops 6-10 hybrid queries over every non-empty combination of {vector, 1-2 texts, filter list, filter groups} x k in {1,2,5,50} x fusion (weighted sum with random weights, RRF K in {1,60}, max, min) x aggregation, " +
		"compared with metadata-model pre-filter -> exact filtered k-NN / textbook BM25 top-k -> fusion -> descending top-k; ties on any top-k boundary or RRF rank make the probe soundness-only (counted); " +
		"non-trivial = query combines >=2 of {vector,text,filter} and returned >=1 result and was compared exactly; distinct by (case, query digest)"
	r.Assumptions = []string{"vector sub-index is a FlatIndex so 'exact' applies", "open corners accepted both ways: both modalities queried but one side empty (pass-through or fusion with an empty side); filters on fields the metadata index has never seen; complement-style filters vs documents that carry no metadata",
		"RRF ranks are 0-based (as in the pinned tree)"}
	n := r.Pick(250, 5000)
	r.CasesParallel("case", n, 16, func(ci int, rng *rand.Rand) {
		cfg := ci % 8
		hasVec, hasTxt, hasMeta := cfg&1 != 0, cfg&2 != 0, cfg&4 != 0
		if cfg == 0 && rng.IntN(4) > 0 {
			hasVec, hasTxt, hasMeta = true, true, true
		}
		metric := allMetrics[rng.IntN(3)]
		dim := pickDim(rng, []int{1, 2, 3, 8})
		sut, err := newHybridSUT(hasVec, hasTxt, hasMeta, dim, metric)
		if err != nil {
			r.ViolationAt("case", ci, "hybrid.setup", err.Error(), nil)
			return
		}
		// what DefaultFusionConfig() hands out belongs to the caller: changing it (as one does to build a custom weighted
		// sum) must not reach the library's defaults, which the via=1 / via=2 queries below rely on
		if dc := comet.DefaultFusionConfig(); dc != nil {
			orig := *dc
			dc.VectorWeight, dc.TextWeight, dc.K = -1, 3, 5
			again := comet.DefaultFusionConfig()
			changed := again == nil || *again != orig
			seen := fmt.Sprintf("%+v", again)
			*dc = orig
			if changed {
				r.ViolationAt("case", ci, "hybrid.default-fusion-config-shared", fmt.Sprintf("after a caller changed the struct returned by DefaultFusionConfig(), the next DefaultFusionConfig() returns %s instead of %+v", seen, orig), nil)
			}
		}
		schema := genSchema(rng)
		h := newHybridModel(hasVec, hasTxt, hasMeta, metric, dim, schema)
		ids := newIDGen(rng)
		ids.min = 1 << 24 // Add() draws ids from a process-wide counter starting at 1: keep explicit ids clear of it
		autoIDs := map[uint32]bool{}
		vg := newVecGen(rng, dim)
		tg := newTextGen(rng)
		var hist []hybridOp
		cfgS := fmt.Sprintf("vec=%v txt=%v meta=%v %s dim=%d", hasVec, hasTxt, hasMeta, metric, dim)
		rep := func(sig, what string) {
			hh := hist
			if len(hh) > 30 {
				hh = hh[len(hh)-30:]
			}
			r.ViolationAt("case", ci, sig, cfgS+" "+what, map[string]any{"config": cfgS, "schema": fmt.Sprint(schema.types), "history_tail": hh})
		}
		var heldQ *hybridQuery
		var heldB comet.HybridSearch
		probe := func() {
			// one long-lived hybrid search object, executed again after the index changed: the same documents as a fresh
			// object with the same configuration (only with k beyond the corpus, where no tie-break can differ)
			if heldB != nil && heldQ.K > len(h.docs) {
				a1, e1 := heldB.Execute()
				a2, e2 := applyHybridQuery(sut.idx.NewSearch(), *heldQ).Execute()
				if (e1 != nil) != (e2 != nil) || len(a1) != len(a2) {
					rep("hybrid.held-search-object-differs", fmt.Sprintf("%s: a search object executed before and again now: %d results / %v; a fresh object: %d / %v", *heldQ, len(a1), e1, len(a2), e2))
					heldB = nil
				} else {
					s2 := map[uint32]bool{}
					for _, x := range a2 {
						s2[x.ID] = true
					}
					for _, x := range a1 {
						if !s2[x.ID] {
							rep("hybrid.held-search-object-differs", fmt.Sprintf("%s: a search object executed before and again now returns id %d, a fresh object does not", *heldQ, x.ID))
							heldB = nil
							break
						}
					}
				}
				r.Count("probes:held-search-object", 1)
			}
			if heldB == nil || rng.IntN(6) == 0 {
				hq := genHybridQuery(rng, h, vg, tg)
				hq.K = 50
				heldQ, heldB = &hq, applyHybridQuery(sut.idx.NewSearch(), hq)
				heldB.Execute()
			}
			for t := 0; t < 6+rng.IntN(5); t++ {
				q := genHybridQuery(rng, h, vg, tg)
				got, err := applyHybridQuery(sut.idx.NewSearch(), q).Execute()
				before := r.Counter("probes:exact")
				checkHybridAnswer(rep, r, h, q, got, err)
				if err == nil && rng.IntN(5) == 0 && q.K > len(h.docs) {
					// the same search object executed again: the same documents (k beyond the corpus, so no k-th place
					// tie can be broken differently the second time)
					sb := applyHybridQuery(sut.idx.NewSearch(), q)
					a1, e1 := sb.Execute()
					a2, e2 := sb.Execute()
					if e1 != nil || e2 != nil || len(a1) != len(a2) {
						rep("hybrid.reexecute-differs", fmt.Sprintf("%s: one search object executed twice: %d results / %v, then %d / %v", q, len(a1), e1, len(a2), e2))
					} else {
						s1 := map[uint32]bool{}
						for _, x := range a1 {
							s1[x.ID] = true
						}
						for _, x := range a2 {
							if !s1[x.ID] {
								rep("hybrid.reexecute-differs", fmt.Sprintf("%s: the second Execute of one search object returns id %d, the first did not", q, x.ID))
								break
							}
						}
					}
					r.Count("probes:re-executed-search-object", 1)
				}
				if err == nil && rng.IntN(6) == 0 {
					// autocut (WithCutoff) cuts each modality's own list before fusion, so the fused answer is not a
					// positional prefix; what must hold: no error or panic for any cutoff value, never more results
					// than the same search without it, and the same number when disabled (-1)
					c := []int{-1, 0, 1, 2, 3, 5, -2, -7}[rng.IntN(8)]
					gc, err2 := applyHybridQuery(sut.idx.NewSearch(), q).WithCutoff(c).Execute()
					switch {
					case err2 != nil:
						rep("hybrid.search-error", fmt.Sprintf("%s cutoff=%d: %v", q, c, err2))
					case len(gc) > len(got) || (c == -1 && len(gc) != len(got)):
						rep("hybrid.cutoff-adds-results", fmt.Sprintf("%s cutoff=%d: %d results, without autocut %d", q, c, len(gc), len(got)))
					}
					r.Count("probes:with-cutoff", 1)
				}
				parts := 0
				if q.Vector != nil {
					parts++
				}
				if len(q.Texts) > 0 {
					parts++
				}
				if len(q.Filters)+len(q.Groups) > 0 {
					parts++
				}
				exact := r.Counter("probes:exact") > before
				r.Eval(parts >= 2 && len(got) > 0 && exact, ev.Digest(ci, len(hist), q.String()))
			}
		}
		nDocs := 5 + rng.IntN(36)
		for op := 0; op < nDocs+nDocs/2; op++ {
			c := rng.IntN(10)
			switch {
			case c < 7 || len(h.docs) == 0:
				var v []float32
				var text string
				var md map[string]any
				for v == nil && text == "" && md == nil {
					if rng.IntN(3) > 0 {
						v = vg.fresh()
					}
					if rng.IntN(3) > 0 {
						text = tg.doc()
					}
					if rng.IntN(3) > 0 {
						md = genMetadata(rng, schema)
						if len(md) == 0 {
							md = nil
						}
					}
				}
				var id uint32
				var err error
				if rng.IntN(3) == 0 {
					id, err = sut.idx.Add(cloneF32(v), text, md)
					if err == nil && (autoIDs[id] || id == 0) {
						rep("hybrid.auto-id-repeated", fmt.Sprintf("Add returned id %d a second time", id))
					}
					autoIDs[id] = true
				} else {
					id = ids.next()
					err = sut.idx.AddWithID(id, cloneF32(v), text, md)
				}
				hist = append(hist, hybridOp{"add", id, cloneF32(v), text, md})
				if err != nil {
					rep("hybrid.add-error", fmt.Sprintf("add failed: %v", err))
					return
				}
				if h.docs[id] {
					rep("hybrid.auto-id-collides", fmt.Sprintf("Add returned id %d which is already in use", id))
					return
				}
				ids.used[id] = true
				h.add(id, v, text, md)
				r.Count("ops:add", 1)
			case c < 9:
				live := sortedKeys(h.docs)
				id := live[rng.IntN(len(live))]
				hist = append(hist, hybridOp{Op: "remove", ID: id})
				if err := sut.idx.Remove(id); err != nil {
					rep("hybrid.remove-error", fmt.Sprintf("Remove(%d): %v", id, err))
				}
				h.remove(id)
				r.Count("ops:remove", 1)
			default:
				hist = append(hist, hybridOp{Op: "flush"})
				if err := sut.idx.Flush(); err != nil {
					rep("hybrid.flush-error", err.Error())
				}
				h.flush()
				r.Count("ops:flush", 1)
			}
			if op%4 == 3 || op == nDocs+nDocs/2-1 {
				probe()
			}
		}
		if r.WantSample() && ci%60 == 7 {
			hh := hist
			if len(hh) > 5 {
				hh = hh[:5]
			}
			r.Sample(map[string]any{"config": cfgS, "history_head": hh})
		}
		r.Count("cases:"+fmt.Sprintf("vec=%v,txt=%v,meta=%v", hasVec, hasTxt, hasMeta), 1)
	})
}
