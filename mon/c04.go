package mon

import (
	"fmt"
	"math/rand/v2"
	"sort"
	"strings"

	"github.com/wizenheimer/comet"

	"verif/internal/ev"
)

func init() { register("C04", "exploration", runC04) }

type metaOp struct {
	Op   string         `json:"op"`
	ID   uint32         `json:"id"`
	Meta map[string]any `json:"meta,omitempty"`
}

func idsOfMeta(res []comet.MetadataResult) map[uint32]bool {
	out := map[uint32]bool{}
	for _, r := range res {
		out[r.GetId()] = true
	}
	return out
}

func sameSet(a, b map[uint32]bool) bool {
	if len(a) != len(b) {
		return false
	}
	for k := range a {
		if !b[k] {
			return false
		}
	}
	return true
}

func setDiff(got, want map[uint32]bool) string {
	var extra, missing []uint32
	for id := range got {
		if !want[id] {
			extra = append(extra, id)
		}
	}
	for id := range want {
		if !got[id] {
			missing = append(missing, id)
		}
	}
	sort.Slice(extra, func(i, j int) bool { return extra[i] < extra[j] })
	sort.Slice(missing, func(i, j int) bool { return missing[i] < missing[j] })
	if len(extra) > 6 {
		extra = extra[:6]
	}
	if len(missing) > 6 {
		missing = missing[:6]
	}
	return fmt.Sprintf("wrongly returned %v, wrongly omitted %v (got %d, want %d)", extra, missing, len(got), len(want))
}

// metaExpect evaluates groups under the index's knowledge: fields the index has never seen (or that are
// not in the schema) have no defined type, so both typings are legal (open corner) and an error is too.
func metaExpect(m *metaModel, groups [][]modelFilter, seen map[string]bool) (alts []map[uint32]bool, sharp bool) {
	unknown := false
	for _, g := range groups {
		_, g := splitGroup(g)
		for _, f := range g {
			if f.impl.Operator == comet.OpExists || f.impl.Operator == comet.OpNotExists {
				continue
			}
			if _, ok := m.schema.types[f.impl.Field]; !ok || !seen[f.impl.Field] {
				unknown = true
			}
		}
	}
	if !unknown {
		ids, ok := m.evalGroups(groups, m.schema.types)
		alts = []map[uint32]bool{ids}
		// the other two readings of "two-decimal fixed point" (they differ only for negative inexact floats)
		for mode := 1; mode <= 2; mode++ {
			m.fxMode = mode
			other, _ := m.evalGroups(groups, m.schema.types)
			m.fxMode = 0
			dup := false
			for _, a := range alts {
				if sameSet(a, other) {
					dup = true
				}
			}
			if !dup {
				alts = append(alts, other)
			}
		}
		return alts, ok
	}
	for _, asType := range []fieldType{ftInt, ftString, ftAbsent} {
		types := map[string]fieldType{}
		for k, v := range m.schema.types {
			if seen[k] {
				types[k] = v
			}
		}
		for _, g := range groups {
			_, g := splitGroup(g)
			for _, f := range g {
				if _, ok := types[f.impl.Field]; !ok {
					types[f.impl.Field] = asType
				}
			}
		}
		func() {
			defer func() { recover() }() // an operand of the wrong Go type for this typing: interpretation undefined
			if ids, ok := m.evalGroups(groups, types); ok {
				alts = append(alts, ids)
			}
		}()
	}
	return alts, false
}

func runC04(r *ev.Run) {
	r.Rule = "case = schema of 3-5 typed fields + Add/Remove history over distinct ids (values incl. negative/zero/large ints, floats with >2 decimals, empty strings, strings with ':'); " +
		"every few ops a battery of 8-20 filter expressions (each operator, Not(f) of each, AND lists, 1-3 OR groups x 1-4 filters, builder API, empty list, operands present/absent, fields absent from the index) " +
		"compared by exact set equality with a model doing ordinary comparison; non-trivial = expression over a field the index knows that matched a non-empty proper subset; distinct by (state digest, expression)"
	r.Assumptions = []string{"two-decimal fixed point: for negative floats with more than two (binary-exact) decimals truncation, floor and rounding of v*100 differ and the property picks none; the model is evaluated under each reading, applied to stored values and operands alike, and an answer equal to any of them is accepted (everywhere else the three agree)",
		"open corner: a filter on a field the index has never seen has no defined type: error, numeric reading or categorical reading accepted",
		"field names contain no ':'"}
	n := r.Pick(400, 8000)
	r.CasesParallel("docs", n, 8, func(ci int, rng *rand.Rand) {
		schema := genSchema(rng)
		m := newMetaModel(schema)
		idx := comet.NewRoaringMetadataIndex()
		ids := newIDGen(rng)
		seen := map[string]bool{}
		var hist []metaOp
		var removed []uint32
		rep := func(sig, what string) {
			h := hist
			if len(h) > 40 {
				h = h[len(h)-40:]
			}
			r.ViolationAt("docs", ci, sig, what, map[string]any{"schema": fmt.Sprint(schema.types), "history_tail": h})
		}
		run := func(kind string, groups [][]modelFilter, exec func() ([]comet.MetadataResult, error)) {
			alts, sharp := metaExpect(m, groups, seen)
			var descs []string
			for _, g := range groups {
				var d []string
				for _, f := range g {
					d = append(d, f.desc)
				}
				descs = append(descs, strings.Join(d, " AND "))
			}
			desc := strings.Join(descs, "  OR  ")
			got, err := exec()
			if err != nil {
				if sharp {
					rep("meta.error-on-valid-filter", fmt.Sprintf("%s [%s]: %v", kind, desc, err))
				} else {
					r.Count("probes:open-corner-error", 1)
				}
				return
			}
			gs := idsOfMeta(got)
			if len(gs) != len(got) {
				var all []uint32
				for _, x := range got {
					all = append(all, x.GetId())
				}
				rep("meta.duplicate-id", fmt.Sprintf("%s [%s]: duplicate ids in result: %v", kind, desc, all))
			}
			for _, id := range removed {
				if gs[id] {
					rep("meta.removed-id-returned", fmt.Sprintf("%s [%s]: removed id %d returned", kind, desc, id))
					return
				}
			}
			for _, a := range alts {
				if sameSet(gs, a) {
					if sharp {
						r.Count("probes:"+kind, 1)
						r.Eval(len(a) > 0 && len(a) < len(m.docs), ev.Digest(ci, len(hist), desc))
					} else {
						r.Count("probes:open-corner-accepted", 1)
					}
					return
				}
			}
			if len(alts) == 0 {
				r.Count("probes:open-corner-undefined", 1)
				return
			}
			sig := "meta.composition"
			if len(groups) == 1 && len(groups[0]) == 1 && groups[0][0].impl.Operator != opOrGroupMarker {
				f := groups[0][0]
				t := "unknown-field"
				if ft, ok := schema.types[f.impl.Field]; ok && seen[f.impl.Field] {
					t = ft.String()
				}
				sig = fmt.Sprintf("meta.leaf.%s.%s", f.model.Operator, t)
				if !sharp {
					sig += ".open-corner-none-legal"
				}
			}
			rep(sig, fmt.Sprintf("%s [%s]: %s", kind, desc, setDiff(gs, alts[0])))
		}
		battery := func() {
			nb := 8 + rng.IntN(13)
			for b := 0; b < nb; b++ {
				absent := rng.IntN(12) == 0
				switch rng.IntN(6) {
				case 0, 1: // single leaf
					f := genLeaf(rng, m, absent)
					run("leaf", [][]modelFilter{{f}}, func() ([]comet.MetadataResult, error) {
						return idx.NewSearch().WithFilters(f.impl).Execute()
					})
				case 2: // AND list
					var g []modelFilter
					var fs []comet.Filter
					for k := 0; k < 1+rng.IntN(4); k++ {
						f := genLeaf(rng, m, absent && k == 0)
						g = append(g, f)
						fs = append(fs, f.impl)
					}
					run("and-list", [][]modelFilter{g}, func() ([]comet.MetadataResult, error) {
						return idx.NewSearch().WithFilters(fs...).Execute()
					})
				case 3: // groups (AND groups, and FilterGroup{Logic: OR} = any-of groups)
					var groups [][]modelFilter
					var fgs []*comet.FilterGroup
					var pool []modelFilter // the same filter often occurs in several groups: (A and x>5) or (A and x<2)
					for gi := 0; gi < 1+rng.IntN(3); gi++ {
						var g []modelFilter
						if rng.IntN(3) == 0 {
							g = append(g, orGroupMarker())
						}
						nf := 1 + rng.IntN(4)
						if rng.IntN(8) == 0 {
							nf = 0 // an EMPTY group (matches every live document) next to the others
							r.Count("probes:empty-group", 1)
						}
						for k := 0; k < nf; k++ {
							if len(pool) > 0 && rng.IntN(3) == 0 {
								g = append(g, pool[rng.IntN(len(pool))])
								r.Count("probes:filter-repeated-across-groups", 1)
								continue
							}
							f := genLeaf(rng, m, absent && gi == 0 && k == 0)
							g = append(g, f)
							pool = append(pool, f)
						}
						groups = append(groups, g)
						fgs = append(fgs, cometGroup(g))
					}
					run("groups", groups, func() ([]comet.MetadataResult, error) {
						return idx.NewSearch().WithFilterGroups(fgs...).Execute()
					})
				case 4: // builder
					qb := comet.NewMetadataFilterQuery()
					var groups [][]modelFilter
					var pool []modelFilter
					for gi := 0; gi < 1+rng.IntN(3); gi++ {
						var g []modelFilter
						var fs []comet.Filter
						for k := 0; k < 1+rng.IntN(3); k++ {
							f := genLeaf(rng, m, false)
							if len(pool) > 0 && rng.IntN(3) == 0 {
								f = pool[rng.IntN(len(pool))]
							} else {
								pool = append(pool, f)
							}
							g = append(g, f)
							fs = append(fs, f.impl)
						}
						if gi == 0 {
							qb = qb.Where(fs...)
						} else {
							qb = qb.Or(fs...)
						}
						if rng.IntN(3) == 0 {
							f := genLeaf(rng, m, false)
							g = append(g, f)
							qb = qb.And(f.impl)
						}
						groups = append(groups, g)
					}
					if rng.IntN(2) == 0 {
						run("builder", groups, func() ([]comet.MetadataResult, error) { return qb.Execute(idx) })
					} else {
						built := qb.Build()
						run("builder-build", groups, func() ([]comet.MetadataResult, error) {
							return idx.NewSearch().WithFilterGroups(built...).Execute()
						})
					}
				default: // empty filter list
					run("empty", nil, func() ([]comet.MetadataResult, error) { return idx.NewSearch().Execute() })
				}
			}
		}
		// every twentieth case starts from MANY documents with DENSE consecutive ids (roaring switches from array to
		// bitmap containers at 4096 entries per 65536 block, and to run containers for consecutive ids): 5000-9000
		// documents, a few hundred of them removed again, then the ordinary history and its batteries on top
		if ci%20 == 11 {
			base := uint32(1<<16)*uint32(1+rng.IntN(3)) - 2500
			n := 5000 + rng.IntN(4000)
			for i := 0; i < n; i++ {
				id := base + uint32(i)
				ids.used[id] = true
				md := genMetadata(rng, schema)
				cp := map[string]any{}
				for k, v := range md {
					cp[k] = v
					seen[k] = true
				}
				if err := idx.Add(*comet.NewMetadataNodeWithID(id, md)); err != nil {
					rep("meta.add-error", err.Error())
					return
				}
				m.docs[id] = cp
			}
			for i := 0; i < 300; i++ {
				id := base + uint32(rng.IntN(n))
				if _, ok := m.docs[id]; ok {
					idx.Remove(*comet.NewMetadataNodeWithID(id, nil))
					delete(m.docs, id)
					removed = append(removed, id)
				}
			}
			hist = append(hist, metaOp{fmt.Sprintf("bulk: %d dense ids from %d, 300 removals", n, base), 0, nil})
			r.Count("cases:dense-ids-bulk", 1)
			battery()
		}
		nDocs := 5 + rng.IntN(56)
		if ci%20 == 11 {
			nDocs = 6 // (every battery walks the whole model: keep the tail of the bulk cases short)
		}
		for op := 0; op < nDocs+nDocs/3; op++ {
			if rng.IntN(4) == 0 && len(m.docs) > 0 {
				live := m.liveIDs()
				id := live[rng.IntN(len(live))]
				hist = append(hist, metaOp{"remove", id, nil})
				if err := idx.Remove(*comet.NewMetadataNodeWithID(id, nil)); err != nil {
					rep("meta.remove-error", err.Error())
				}
				delete(m.docs, id)
				removed = append(removed, id)
				r.Count("ops:remove", 1)
			} else {
				id := ids.next()
				md := genMetadata(rng, schema)
				cp := map[string]any{}
				for k, v := range md {
					cp[k] = v
					seen[k] = true
				}
				hist = append(hist, metaOp{"add", id, cp})
				if err := idx.Add(*comet.NewMetadataNodeWithID(id, md)); err != nil {
					rep("meta.add-error", err.Error())
				}
				m.docs[id] = cp
				r.Count("ops:add", 1)
			}
			if op%5 == 4 || op == nDocs+nDocs/3-1 {
				battery()
			}
		}
		if r.WantSample() && ci%50 == 0 {
			h := hist
			if len(h) > 6 {
				h = h[:6]
			}
			r.Sample(map[string]any{"schema": fmt.Sprint(schema.types), "history_head": h})
		}
	})
}
