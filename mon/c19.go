package mon

import (
	"fmt"
	"math"
	"math/rand/v2"
	"sort"

	"github.com/wizenheimer/comet"

	"verif/internal/ev"
)

func init() { register("C19", "exploration", runC19) }

func genScore(rng *rand.Rand, special bool) float32 {
	if special {
		switch rng.IntN(12) {
		case 0:
			return float32(math.Inf(1))
		case 1:
			return float32(math.Inf(-1))
		case 2:
			return float32(math.NaN())
		}
	}
	switch rng.IntN(5) {
	case 0:
		return float32(rng.IntN(5)) // ties
	case 1:
		return float32(rng.IntN(7) - 3)
	case 2:
		return float32(rng.NormFloat64() * 100)
	case 3:
		return float32(rng.Float64())
	default:
		return float32(rng.NormFloat64())
	}
}

type aggRef struct {
	sum, max float64
	absSum   float64
	n        int
	nan      bool
}

func aggExpected(kind comet.ScoreAggregationKind, a aggRef) float64 {
	switch kind {
	case comet.SumAggregation:
		return a.sum
	case comet.MaxAggregation:
		return a.max
	default:
		return a.sum / float64(a.n)
	}
}

func closeF(got, want, scale float64, n int) bool {
	if math.IsNaN(want) || math.IsNaN(got) {
		return math.IsNaN(want) == math.IsNaN(got)
	}
	if math.IsInf(want, 0) || math.IsInf(got, 0) {
		return got == want
	}
	return math.Abs(got-want) <= float64(n+2)*eps32*2*math.Max(scale, math.Abs(want))+1e-37
}

func runC19(r *ev.Run) {
	r.Rule = "case = one generated input (result list with duplicate ids/ties/+-Inf/NaN, or a pair of score maps) pushed through every aggregation kind, " +
		"limit, autocut and fusion law; non-trivial = list has >=2 entries with >=1 duplicate id (aggregation) or maps overlap partially (fusion); distinct by input digest"
	r.Assumptions = []string{"reference = direct float64 transcription of the C19 sentences", "RRF rank is 0-based as in the pinned tree; with tied scores any legal ranking is accepted (bounds check)"}
	n := r.Pick(12000, 800000)
	kinds := []comet.ScoreAggregationKind{comet.SumAggregation, comet.MaxAggregation, comet.MeanAggregation}

	r.CasesParallel("aggregate", n, 16, func(i int, rng *rand.Rand) {
		ln := rng.IntN(12)
		if rng.IntN(4) == 0 {
			ln = rng.IntN(300)
		}
		nIDs := 1 + rng.IntN(ln/2+2)
		special := rng.IntN(3) == 0
		ids := make([]uint32, ln)
		sc := make([]float32, ln)
		dup := false
		seen := map[uint32]bool{}
		// id magnitudes: small (1..n), starting at 0, straddling a roaring container edge, around 2^31, or ending exactly
		// at the largest uint32 there is (ids are document keys; nothing says they are small)
		idOff := []uint32{1, 1, 1, 0, 65534, 1<<31 - 2, math.MaxUint32 - uint32(nIDs) + 1}[rng.IntN(7)]
		for j := 0; j < ln; j++ {
			ids[j] = idOff + uint32(rng.IntN(nIDs))
			if seen[ids[j]] {
				dup = true
			}
			seen[ids[j]] = true
			sc[j] = genScore(rng, special)
		}
		wit := func() any {
			m := ln
			if m > 24 {
				m = 24
			}
			ss := make([]string, m)
			for j := 0; j < m; j++ {
				ss[j] = fmt.Sprintf("%d:%g", ids[j], sc[j])
			}
			return map[string]any{"len": ln, "head": ss}
		}
		fail := func(sig, what string) { r.ViolationAt("aggregate", i, sig, what, wit()) }
		if r.WantSample() && i%1500 == 7 {
			r.Sample(wit())
		}
		ref := map[uint32]*aggRef{}
		for j := 0; j < ln; j++ {
			a := ref[ids[j]]
			if a == nil {
				a = &aggRef{max: math.Inf(-1)}
				ref[ids[j]] = a
			}
			v := float64(sc[j])
			if math.IsNaN(v) {
				a.nan = true
			}
			a.sum += v
			a.absSum += math.Abs(v)
			if v > a.max {
				a.max = v
			}
			a.n++
		}
		perm := rng.Perm(ln)
		for _, kind := range kinds {
			// ---- vector aggregation ----
			va, err := comet.NewVectorAggregation(kind)
			if err != nil || va.Kind() != kind {
				fail("agg.constructor", "NewVectorAggregation failed or wrong kind")
				continue
			}
			in := make([]comet.VectorResult, ln)
			in2 := make([]comet.VectorResult, ln)
			for j := 0; j < ln; j++ {
				in[j] = comet.VectorResult{Node: *comet.NewVectorNodeWithID(ids[j], nil), Score: sc[j]}
			}
			for j, p := range perm {
				in2[j] = in[p]
			}
			out := va.Aggregate(append([]comet.VectorResult(nil), in...))
			out2 := va.Aggregate(in2)
			checkAgg := func(name string, oid []uint32, osc []float32, asc bool) map[uint32]float32 {
				got := map[uint32]float32{}
				if len(oid) != len(ref) {
					fail("agg."+name+".id-count", fmt.Sprintf("%s %s: %d ids out, %d distinct ids in", name, kind, len(oid), len(ref)))
				}
				anyNaN := false
				for j, id := range oid {
					if _, d := got[id]; d {
						fail("agg."+name+".duplicate-id", fmt.Sprintf("%s %s: id %d repeated", name, kind, id))
					}
					got[id] = osc[j]
					a := ref[id]
					if a == nil {
						fail("agg."+name+".foreign-id", fmt.Sprintf("%s %s: id %d not in input", name, kind, id))
						continue
					}
					if math.IsNaN(float64(osc[j])) {
						anyNaN = true
					}
					if a.nan {
						continue // NaN inputs: only no-panic/id-once is asserted
					}
					want := aggExpected(kind, *a)
					scale := a.absSum
					if kind == comet.MeanAggregation {
						scale = a.absSum / float64(a.n)
					}
					if kind == comet.MaxAggregation {
						if float64(osc[j]) != want {
							fail("agg."+name+".max-value", fmt.Sprintf("%s max: id %d got %g want %g", name, id, osc[j], want))
						}
					} else if !closeF(float64(osc[j]), want, scale, a.n) {
						fail("agg."+name+"."+string(kind)+"-value", fmt.Sprintf("%s %s: id %d got %g want %g (n=%d)", name, kind, id, osc[j], want, a.n))
					}
				}
				if !anyNaN {
					for j := 1; j < len(osc); j++ {
						if (asc && osc[j] < osc[j-1]) || (!asc && osc[j] > osc[j-1]) {
							fail("agg."+name+".order", fmt.Sprintf("%s %s: out of order at %d: %g then %g", name, kind, j, osc[j-1], osc[j]))
							break
						}
					}
				}
				return got
			}
			split := func(o []comet.VectorResult) ([]uint32, []float32) {
				a, b := make([]uint32, len(o)), make([]float32, len(o))
				for j := range o {
					a[j], b[j] = o[j].GetId(), o[j].GetScore()
				}
				return a, b
			}
			oi, os_ := split(out)
			g1 := checkAgg("vector", oi, os_, true)
			oi2, os2 := split(out2)
			g2 := checkAgg("vector", oi2, os2, true)
			for id, s := range g1 {
				a := ref[id]
				if a == nil || a.nan {
					continue
				}
				if s2, ok := g2[id]; !ok || !closeF(float64(s2), float64(s), a.absSum, a.n) {
					fail("agg.vector.order-dependent", fmt.Sprintf("vector %s: id %d gives %g vs %g after shuffling the input", kind, id, s, s2))
				}
			}
			// ---- text aggregation ----
			ta, err := comet.NewTextAggregation(kind)
			if err != nil || ta.Kind() != kind {
				fail("agg.constructor", "NewTextAggregation failed or wrong kind")
				continue
			}
			tin := make([]comet.TextResult, ln)
			for j := 0; j < ln; j++ {
				tin[j] = comet.TextResult{Id: ids[j], Score: sc[j]}
			}
			tout := ta.Aggregate(tin)
			ti, ts := make([]uint32, len(tout)), make([]float32, len(tout))
			for j := range tout {
				ti[j], ts[j] = tout[j].GetId(), tout[j].GetScore()
			}
			checkAgg("text", ti, ts, false)

			// ---- limit / autocut on the aggregated list ----
			for _, k := range []int{-3, -1, 0, 1, 2, len(out) - 1, len(out), len(out) + 1, len(out) + 3, rng.IntN(len(out) + 2)} {
				lim := comet.LimitResults(out, k)
				want := len(out)
				if k > 0 && k < len(out) {
					want = k
				}
				if len(lim) != want {
					fail("limit.length", fmt.Sprintf("LimitResults(len %d, k=%d) returned %d", len(out), k, len(lim)))
				} else {
					for j := range lim {
						if lim[j].GetId() != out[j].GetId() {
							fail("limit.not-prefix", fmt.Sprintf("LimitResults k=%d is not the first k results", k))
							break
						}
					}
				}
				// the same list with spare capacity (built with append, or itself the result of an earlier cut)
				roomy := append(make([]comet.VectorResult, 0, len(out)+5), out...)
				if lr := comet.LimitResults(roomy, k); len(lr) != want {
					fail("limit.length-with-spare-capacity", fmt.Sprintf("LimitResults(len %d cap %d, k=%d) returned %d", len(roomy), cap(roomy), k, len(lr)))
				}
				if len(out) > 1 {
					cutOnce := comet.LimitResults(out, len(out)-1)
					if lr := comet.LimitResults(cutOnce, k); len(lr) > len(cutOnce) {
						fail("limit.length-with-spare-capacity", fmt.Sprintf("LimitResults of an already limited list (len %d) with k=%d returned %d", len(cutOnce), k, len(lr)))
					}
				}
				if comet.VerifSanitizeK(k, len(out)) != want {
					fail("sanitizek", fmt.Sprintf("sanitizeK(%d,%d)=%d", k, len(out), comet.VerifSanitizeK(k, len(out))))
				}
			}
		}
		if _, err := comet.NewVectorAggregation("nope"); err == nil {
			fail("agg.constructor", "unknown aggregation kind accepted")
		}
		// autocut on the raw (unsorted, arbitrary) list: prefix, identity when disabled, never panics
		raw := make([]comet.TextResult, ln)
		for j := 0; j < ln; j++ {
			raw[j] = comet.TextResult{Id: ids[j], Score: sc[j]}
		}
		variants := [][]comet.TextResult{raw}
		srt := append([]comet.TextResult(nil), raw...)
		sort.SliceStable(srt, func(a, b int) bool { return srt[a].Score > srt[b].Score })
		variants = append(variants, srt)
		if ln > 0 {
			eq := make([]comet.TextResult, ln)
			for j := range eq {
				eq[j] = comet.TextResult{Id: uint32(j + 1), Score: sc[0]}
			}
			variants = append(variants, eq)
			// not a single finite score (all +Inf, all -Inf, all NaN, or a mixture)
			nf := make([]comet.TextResult, ln)
			kind := rng.IntN(4)
			for j := range nf {
				x := []float32{float32(math.Inf(1)), float32(math.Inf(-1)), float32(math.NaN())}[rng.IntN(3)]
				if kind < 3 {
					x = []float32{float32(math.Inf(1)), float32(math.Inf(-1)), float32(math.NaN())}[kind]
				}
				nf[j] = comet.TextResult{Id: uint32(j + 1), Score: x}
			}
			variants = append(variants, nf)
		}
		for _, list := range variants {
			for _, cut := range []int{-3, -1, 0, 1, 2, 3, len(list), len(list) + 3} {
				func() {
					defer func() {
						if p := recover(); p != nil {
							fail("autocut.panic", fmt.Sprintf("AutocutResults(len %d, cutoff %d) panicked: %v", len(list), cut, p))
						}
					}()
					got := comet.AutocutResults(list, cut)
					if len(got) > len(list) {
						fail("autocut.not-prefix", "AutocutResults returned more than its input")
						return
					}
					for j := range got {
						if got[j].Id != list[j].Id || math.Float32bits(got[j].Score) != math.Float32bits(list[j].Score) {
							fail("autocut.not-prefix", fmt.Sprintf("AutocutResults(cutoff %d) is not a prefix at %d", cut, j))
							return
						}
					}
					if cut == -1 && len(got) != len(list) {
						fail("autocut.disabled-not-identity", fmt.Sprintf("AutocutResults with cutoff -1 returned %d of %d", len(got), len(list)))
					}
					ys := make([]float32, len(list))
					for j := range list {
						ys[j] = list[j].Score
					}
					idx := comet.Autocut(ys, cut)
					if idx < 0 || idx > len(ys) {
						fail("autocut.index-range", fmt.Sprintf("Autocut returned %d for %d values", idx, len(ys)))
					}
					r.Count("autocut-calls", 1)
					if len(got) < len(list) {
						r.Count("autocut-actually-cut", 1)
					}
				}()
			}
		}
		r.Count("aggregate-inputs", 1)
		r.Eval(ln >= 2 && dup, ev.Digest("agg", ln, ids, sc))
	})

	// ---------------- fusion + merge ----------------
	r.CasesParallel("fusion", n, 16, func(i int, rng *rand.Rand) {
		shape := rng.IntN(5) // 0 disjoint 1 nested 2 equal 3 partial 4 one empty
		nv, nt := rng.IntN(10), rng.IntN(10)
		if rng.IntN(6) == 0 {
			nv, nt = rng.IntN(120), rng.IntN(120)
		}
		ties := rng.IntN(3) == 0
		// "close": finite float64 scores that are distinct but would collide if narrowed to float32 — neighbours a few
		// 1e-10 apart, or magnitudes outside the float32 range (a caller's scores are float64; nothing says they came from float32)
		closeMode, closeBase := rng.IntN(6) == 0, []float64{0.75, -3, 1e-60, 1e150, -1e-50, 1}[rng.IntN(6)]
		gen := func() float64 {
			if closeMode && !ties {
				return closeBase * (1 + float64(rng.IntN(40))*1e-10)
			}
			if ties {
				return float64(rng.IntN(4))
			}
			if rng.IntN(2) == 0 {
				return rng.Float64() * 2
			}
			return rng.NormFloat64() * 10
		}
		vec, txt := map[uint32]float64{}, map[uint32]float64{}
		for j := 0; j < nv; j++ {
			vec[uint32(1+rng.IntN(3*nv+1))] = gen()
		}
		switch shape {
		case 0:
			for j := 0; j < nt; j++ {
				txt[uint32(100000+rng.IntN(3*nt+1))] = gen()
			}
		case 1:
			for id := range vec {
				if rng.IntN(2) == 0 {
					txt[id] = gen()
				}
			}
		case 2:
			for id := range vec {
				txt[id] = gen()
			}
		case 3:
			for id := range vec {
				if rng.IntN(2) == 0 {
					txt[id] = gen()
				}
			}
			for j := 0; j < nt; j++ {
				txt[uint32(100000+rng.IntN(3*nt+1))] = gen()
			}
		case 4:
		}
		// a side that holds nothing may just as well be a nil map
		switch rng.IntN(12) {
		case 0:
			vec = nil
		case 1:
			txt = nil
		case 2:
			vec, txt = nil, nil
		}
		if vec == nil || txt == nil {
			r.Count("fusion-nil-map-inputs", 1)
		}
		if closeMode && !ties {
			r.Count("fusion-inputs-distinct-only-beyond-float32", 1)
		}
		cp := func(m map[uint32]float64) map[uint32]float64 {
			o := make(map[uint32]float64, len(m))
			for k, v := range m {
				o[k] = v
			}
			return o
		}
		v0, t0 := cp(vec), cp(txt)
		wit := func() any { return map[string]any{"vector": v0, "text": t0, "shape": shape} }
		fail := func(sig, what string) { r.ViolationAt("fusion", i, sig, what, wit()) }
		if r.WantSample() && i%1500 == 3 && len(v0)+len(t0) < 12 {
			r.Sample(wit())
		}
		same := func(a, b map[uint32]float64) bool {
			if len(a) != len(b) {
				return false
			}
			for k, v := range a {
				if w, ok := b[k]; !ok || math.Float64bits(w) != math.Float64bits(v) {
					return false
				}
			}
			return true
		}
		wv, wt := rng.Float64()*3, rng.Float64()*3
		if rng.IntN(4) == 0 {
			wv, wt = 1, 1
		}
		switch rng.IntN(10) {
		case 0: // a weight of exactly 0 switches a modality off; its ids stay in the union (score 0 from that side)
			wv = 0
		case 1:
			wt = 0
		case 2:
			wv, wt = 0, 0
		}
		K := []float64{1, 60, 0.5 + rng.Float64()*100}[rng.IntN(3)]
		cfg := &comet.FusionConfig{VectorWeight: wv, TextWeight: wt, K: K}
		union := map[uint32]bool{}
		for id := range vec {
			union[id] = true
		}
		for id := range txt {
			union[id] = true
		}
		near := func(a, b float64) bool { return math.Abs(a-b) <= 1e-12*(1+math.Abs(a)+math.Abs(b)) }
		for _, kind := range []comet.FusionKind{comet.WeightedSumFusion, comet.MaxFusion, comet.MinFusion, comet.ReciprocalRankFusion} {
			f, err := comet.NewFusion(kind, cfg)
			if err != nil || f.Kind() != kind {
				fail("fusion.constructor", fmt.Sprintf("NewFusion(%s) failed", kind))
				continue
			}
			got := f.Combine(vec, txt)
			if !same(vec, v0) || !same(txt, t0) {
				fail("fusion."+string(kind)+".mutates-input", "Combine mutated an input map")
				vec, txt = cp(v0), cp(t0)
			}
			switch kind {
			case comet.WeightedSumFusion:
				if len(got) != len(union) {
					fail("fusion.weighted.keyset", fmt.Sprintf("weighted sum: %d keys, union has %d", len(got), len(union)))
				}
				for id := range union {
					want := 0.0
					if s, ok := v0[id]; ok {
						want += s * wv
					}
					if s, ok := t0[id]; ok {
						want += s * wt
					}
					if g, ok := got[id]; !ok || !near(g, want) {
						fail("fusion.weighted.value", fmt.Sprintf("weighted sum id %d: got %v want %g", id, got[id], want))
						break
					}
				}
			case comet.MaxFusion:
				if len(got) != len(union) {
					fail("fusion.max.keyset", fmt.Sprintf("max: %d keys, union has %d", len(got), len(union)))
				}
				for id := range union {
					sv, okv := v0[id]
					st, okt := t0[id]
					want := sv
					if !okv || (okt && st > sv) {
						want = st
					}
					if g, ok := got[id]; !ok || g != want {
						fail("fusion.max.value", fmt.Sprintf("max id %d: got %v want %g", id, got[id], want))
						break
					}
				}
			case comet.MinFusion:
				cnt := 0
				for id, sv := range v0 {
					if st, ok := t0[id]; ok {
						cnt++
						want := math.Min(sv, st)
						if g, ok := got[id]; !ok || g != want {
							fail("fusion.min.value", fmt.Sprintf("min id %d: got %v want %g", id, got[id], want))
							break
						}
					}
				}
				if len(got) != cnt {
					fail("fusion.min.keyset", fmt.Sprintf("min: %d keys, intersection has %d", len(got), cnt))
				}
			case comet.ReciprocalRankFusion:
				if len(got) != len(union) {
					fail("fusion.rrf.keyset", fmt.Sprintf("rrf: %d keys, union has %d", len(got), len(union)))
				}
				// rank bounds: #strictly better <= rank <= #strictly better + #tied-others
				bounds := func(m map[uint32]float64, id uint32, asc bool) (lo, hi int, ok bool) {
					s, ok := m[id]
					if !ok {
						return 0, 0, false
					}
					for o, so := range m {
						if o == id {
							continue
						}
						if (asc && so < s) || (!asc && so > s) {
							lo++
							hi++
						} else if so == s {
							hi++
						}
					}
					return lo, hi, true
				}
				amb := false
				for id := range union {
					var lo, hi float64
					if l, h, ok := bounds(v0, id, true); ok {
						hi += 1 / (K + float64(l))
						lo += 1 / (K + float64(h))
						if l != h {
							amb = true
						}
					}
					if l, h, ok := bounds(t0, id, false); ok {
						hi += 1 / (K + float64(l))
						lo += 1 / (K + float64(h))
						if l != h {
							amb = true
						}
					}
					g, ok := got[id]
					if !ok || g < lo-1e-12 || g > hi+1e-12 {
						fail("fusion.rrf.value", fmt.Sprintf("rrf id %d: got %v, legal range [%g,%g] (K=%g)", id, got[id], lo, hi, K))
						break
					}
				}
				if amb {
					r.Count("rrf-tie-ambiguous", 1)
				} else {
					r.Count("rrf-exact", 1)
				}
				for _, asc := range []bool{true, false} {
					ranks := comet.VerifScoreMapToRanks(v0, asc)
					if len(ranks) != len(v0) {
						fail("ranks.keyset", "scoreMapToRanks changed the key set")
						continue
					}
					used := make([]bool, len(v0))
					for id, rk := range ranks {
						if rk < 0 || rk >= len(v0) || used[rk] {
							fail("ranks.not-permutation", fmt.Sprintf("rank %d of id %d invalid/duplicate", rk, id))
							break
						}
						used[rk] = true
						l, h, _ := bounds(v0, id, asc)
						if rk < l || rk > h {
							fail("ranks.not-best-first", fmt.Sprintf("id %d rank %d outside [%d,%d] asc=%v", id, rk, l, h, asc))
							break
						}
					}
				}
			}
		}
		// inputs holding non-finite scores (NaN, +-Inf): nothing is promised about the fused VALUES, but every kind still
		// answers without panicking and leaves both input maps bit for bit as they were
		if i%3 == 0 && len(v0)+len(t0) > 0 {
			nv, nt := cp(v0), cp(t0)
			poke := func(m map[uint32]float64) {
				for id := range m {
					if rng.IntN(3) == 0 {
						m[id] = []float64{math.NaN(), math.NaN(), math.Inf(1), math.Inf(-1)}[rng.IntN(4)]
					}
				}
			}
			poke(nv)
			poke(nt)
			nv0, nt0 := cp(nv), cp(nt)
			for _, kind := range []comet.FusionKind{comet.WeightedSumFusion, comet.MaxFusion, comet.MinFusion, comet.ReciprocalRankFusion} {
				f, err := comet.NewFusion(kind, cfg)
				if err != nil {
					continue
				}
				func() {
					defer func() {
						if p := recover(); p != nil {
							fail("fusion."+string(kind)+".panic", fmt.Sprintf("Combine panicked on inputs with non-finite scores: %v", p))
						}
					}()
					f.Combine(nv, nt)
				}()
				if !same(nv, nv0) || !same(nt, nt0) {
					fail("fusion."+string(kind)+".mutates-input", fmt.Sprintf("Combine changed an input map holding non-finite scores: vector %v -> %v, text %v -> %v", nv0, nv, nt0, nt))
					nv, nt = cp(nv0), cp(nt0)
				}
				r.Count("fusion-non-finite-inputs", 1)
			}
		}
		if f, err := comet.NewFusion(comet.WeightedSumFusion, nil); err != nil || f == nil {
			fail("fusion.constructor", "NewFusion with nil config failed")
		} else {
			got := f.Combine(vec, txt)
			for id := range union {
				if !near(got[id], v0[id]+t0[id]) {
					fail("fusion.default-weights", "default config is not weights 1/1")
					break
				}
			}
		}
		if _, err := comet.NewFusion("nope", nil); err == nil {
			fail("fusion.constructor", "unknown fusion kind accepted")
		}

		// ---- mergeResults / sortResultsByScore ----
		var hs []comet.HybridSearchResult
		best := map[uint32]float64{}
		for rep := 0; rep < 1+rng.IntN(3); rep++ {
			for id, s := range v0 {
				if rng.IntN(3) > 0 {
					s2 := s + float64(rng.IntN(3)-1)
					if rng.IntN(20) == 0 {
						s2 = math.Inf(1 - 2*rng.IntN(2))
					}
					hs = append(hs, comet.HybridSearchResult{ID: id, Score: s2})
					if b, ok := best[id]; !ok || s2 > b {
						best[id] = s2
					}
				}
			}
		}
		rng.Shuffle(len(hs), func(a, b int) { hs[a], hs[b] = hs[b], hs[a] })
		hs0 := append([]comet.HybridSearchResult(nil), hs...)
		merged := comet.VerifMergeResults(hs)
		for j := range hs {
			if hs[j] != hs0[j] {
				fail("merge.mutates-input", "mergeResults modified its input")
				break
			}
		}
		if len(merged) != len(best) {
			fail("merge.id-count", fmt.Sprintf("mergeResults: %d out, %d distinct ids", len(merged), len(best)))
		}
		seenM := map[uint32]bool{}
		for _, m := range merged {
			if seenM[m.ID] {
				fail("merge.duplicate-id", fmt.Sprintf("mergeResults repeats id %d", m.ID))
			}
			seenM[m.ID] = true
			if b, ok := best[m.ID]; !ok || b != m.Score {
				fail("merge.not-highest", fmt.Sprintf("mergeResults id %d score %g, highest %g", m.ID, m.Score, b))
			}
		}
		comet.VerifSortResultsByScore(merged)
		for j := 1; j < len(merged); j++ {
			if merged[j].Score > merged[j-1].Score {
				fail("merge.sort-order", "sortResultsByScore is not descending")
				break
			}
		}
		r.Count("fusion-inputs:shape"+fmt.Sprint(shape), 1)
		inter := 0
		for id := range v0 {
			if _, ok := t0[id]; ok {
				inter++
			}
		}
		r.Eval(inter > 0 && inter < len(union), ev.Digest("fus", v0, t0, wv, wt, K))
	})
}
