package mon

import (
	"fmt"
	"math"
	"math/rand/v2"

	"github.com/wizenheimer/comet"

	"verif/internal/ev"
)

func init() { register("C13", "exploration", runC13) }

func runC13(r *ev.Run) {
	r.Rule = "case = (nlist 1..32, dim 1..32, metric, training set of nlist..500 vectors incl. heavy duplicates => duplicate centroids/empty clusters, Add/Remove/Flush history); " +
		"after every op queries at nprobes in {-1,0,1..nlist,nlist+3} are listed completely and compared with exact search over the live vectors of a legal choice of the p nearest clusters " +
		"(centroid distances via comet's own Distance on centroids read through the accessor; bit-equal ties: every legal choice accepted), restricted probes decided exactly against that listing, " +
		"rank-wise monotonicity in p when there is no boundary tie, list-membership invariant (exactly one list, the nearest centroid's) after every Add, untrained Add/search => error; " +
		"non-trivial = nlist>=2, a partial-probe listing was compared, history has removal+flush; distinct by (params, history digest)"
	r.Assumptions = []string{"'nearest centroid' is decided with comet's Distance.Calculate (monitored by C18) on the stored, preprocessed vector", "tied probe sets: up to 64 legal choices tried, otherwise soundness only (counted)"}
	n := r.Pick(160, 4000)
	r.CasesParallel("history", n, 16, func(ci int, rng *rand.Rand) {
		metric := allMetrics[rng.IntN(3)]
		dim := 1 + rng.IntN(32)
		if rng.IntN(2) == 0 {
			dim = 1 + rng.IntN(4)
		}
		nlist := 1 + rng.IntN(8)
		if rng.IntN(4) == 0 {
			nlist = 1 + rng.IntN(32)
		}
		idx, err := comet.NewIVFIndex(dim, nlist, metric)
		if err != nil {
			r.ViolationAt("history", ci, "ivf.constructor", err.Error(), nil)
			return
		}
		s := &vecSUT{kind: "ivf", idx: idx, dim: dim, metric: metric, nlist: nlist}
		s.dist, _ = comet.NewDistance(metric)
		vg := newVecGen(rng, dim)
		m := newVecModel(metric, dim)
		ids := newIDGen(rng)
		var hist []histOp
		nTrain := nlist + rng.IntN(40)
		if rng.IntN(5) == 0 {
			nTrain = nlist // exactly one training vector per cluster
		}
		if rng.IntN(5) == 0 {
			nTrain = nlist + rng.IntN(500-nlist+1)
		}
		dupHeavy := rng.IntN(3) == 0
		s.params = fmt.Sprintf("dim=%d nlist=%d ntrain=%d dupheavy=%v", dim, nlist, nTrain, dupHeavy)
		rep := func(sig, what string) {
			h := hist
			if len(h) > 30 {
				h = h[len(h)-30:]
			}
			r.ViolationAt("history", ci, sig, fmt.Sprintf("ivf %s %s: %s", metric, s.params, what),
				map[string]any{"metric": metric, "params": s.params, "history_tail": h})
		}
		// before training: Add and search are errors
		if err := idx.Add(*comet.NewVectorNodeWithID(ids.absent(), vg.fresh())); err == nil {
			rep("ivf.add-before-train", "Add succeeded before Train")
		}
		if _, err := idx.NewSearch().WithQuery(vg.query()).Execute(); err == nil {
			rep("ivf.search-before-train", "search succeeded before Train")
		}
		if idx.Trained() {
			rep("ivf.trained-flag", "Trained() true before Train")
		}
		if nlist > 1 {
			few := make([]comet.VectorNode, nlist-1)
			for i := range few {
				few[i] = *comet.NewVectorNodeWithID(uint32(i+1), vg.fresh())
			}
			if err := idx.Train(few); err == nil {
				// training on fewer vectors than clusters: comet documents an error; not part of C13's text, only counted
				r.Count("train-with-fewer-than-nlist-accepted", 1)
				return
			}
		}
		train := make([]comet.VectorNode, nTrain)
		var trainRaw [][]float32
		for i := range train {
			v := vg.fresh()
			if dupHeavy && i > 0 && rng.IntN(4) > 0 {
				v = cloneF32(trainRaw[rng.IntN(len(trainRaw))])
			}
			trainRaw = append(trainRaw, cloneF32(v))
			train[i] = *comet.NewVectorNodeWithID(uint32(i+1), v)
		}
		if err := idx.Train(train); err != nil {
			rep("ivf.train-error", err.Error())
			return
		}
		// the training buffers are the caller's (trainRaw keeps the values): overwriting them must not move the centroids
		if scribbleAndCheck(idx, train) {
			rep("ivf.centroids-alias-training-data", fmt.Sprintf("the centroids changed when the caller overwrote its %d training vectors after Train had returned (nlist=%d)", len(train), nlist))
			return
		}
		st0 := comet.VerifIVFState(idx)
		for ci2, c := range st0.Centroids {
			for _, x := range c {
				if math.IsNaN(float64(x)) || math.IsInf(float64(x), 0) {
					rep("ivf.nonfinite-centroid", fmt.Sprintf("centroid %d has a non-finite coordinate after training", ci2))
					return
				}
			}
		}
		if len(st0.Centroids) != nlist {
			rep("ivf.centroid-count", fmt.Sprintf("%d centroids for nlist=%d", len(st0.Centroids), nlist))
			return
		}
		removals, flushes, partial := 0, 0, 0
		membership := func() {
			st := comet.VerifIVFState(idx)
			count := map[uint32]int{}
			for li, l := range st.Lists {
				for _, e := range l {
					count[e.ID]++
					d := s.dist.Calculate(e.Vector, st.Centroids[li])
					for cj := range st.Centroids {
						if dj := s.dist.Calculate(e.Vector, st.Centroids[cj]); dj < d {
							rep("ivf.not-nearest-cluster", fmt.Sprintf("id %d stored in list %d (d=%g) but centroid %d is nearer (d=%g)", e.ID, li, d, cj, dj))
							return
						}
					}
				}
			}
			// (removed-but-not-yet-flushed vectors are promised nothing: an implementation may purge them early,
			// as comet does when a tombstoned id is added again)
			for id := range m.live {
				if count[id] != 1 {
					rep("ivf.list-membership", fmt.Sprintf("live id %d is stored in %d lists", id, count[id]))
					return
				}
			}
			r.Count("invariant:list-membership-checks", 1)
		}
		var held *heldSearch
		probe := func() {
			if held == nil || rng.IntN(8) == 0 {
				ho := vecProbeOpts{NProbes: []int{-1, 0, 1, nlist, 1 + rng.IntN(nlist)}[rng.IntN(5)]}
				held = newHeldSearch(func() comet.VectorSearch { return s.search(ho) })
				hq := vg.query()
				held.step("WithQuery", func(x comet.VectorSearch) comet.VectorSearch { return x.WithQuery(cloneF32(hq)) })
			} else {
				heldSearchStep(rng, held, vg.query(), m.liveIDs(), len(m.live))
			}
			if !held.compare(rep, "ivf") {
				held = nil
			}
			r.Count("probes:held-search-object", 1)
			for qi := 0; qi < 1+rng.IntN(2); qi++ {
				q := vg.query()
				pq, err := s.dist.Preprocess(cloneF32(q))
				if err != nil {
					continue
				}
				var prev *listing
				prevTie := true
				ps := []int{-1, 0, nlist, nlist + 3}
				for p := 1; p <= nlist && p <= 6; p++ {
					ps = append(ps, p)
				}
				if nlist > 6 {
					ps = append(ps, 1+rng.IntN(nlist))
				}
				// ascending p order for the monotonicity clause
				order := []int{}
				for p := 1; p <= nlist; p++ {
					for _, x := range ps {
						if x == p {
							order = append(order, p)
							break
						}
					}
				}
				order = append(order, -1, 0, nlist+3)
				lastP := 0
				for _, p := range order {
					o := vecProbeOpts{NProbes: p}
					res, err := s.search(o).WithQuery(cloneF32(q)).WithK(0).Execute()
					if err != nil {
						rep("ivf.search-error", err.Error())
						continue
					}
					full := toListing(res)
					e, err := s.expect(q, m, p)
					if err != nil {
						rep("ivf.oracle-error", err.Error())
						continue
					}
					amb := checkListingAlts(rep, "ivf.full", full, m.live, e)
					choices, okc, _ := probedClusterChoices(s.dist, pq, comet.VerifIVFState(idx).Centroids, p)
					tie := !okc || len(choices) != 1
					if amb {
						r.Count("probes:ambiguous-tie(soundness only)", 1)
					} else if p > 0 && p < nlist {
						partial++
						r.Count("probes:partial-probe-exact", 1)
					} else {
						r.Count("probes:full-probe-exact", 1)
					}
					// rank by rank, p+1 probes never worse than p probes (no boundary tie on either side)
					if p > 0 && p <= nlist && prev != nil && !prevTie && !tie && p == lastP+1 {
						for i := range prev.scores {
							if i >= len(full.scores) {
								rep("ivf.monotone-in-nprobes", fmt.Sprintf("nprobes=%d returns fewer results (%d) than nprobes=%d (%d)", p, len(full.scores), lastP, len(prev.scores)))
								break
							}
							if full.scores[i] > prev.scores[i] {
								rep("ivf.monotone-in-nprobes", fmt.Sprintf("rank %d: score %g at nprobes=%d is worse than %g at nprobes=%d", i, full.scores[i], p, prev.scores[i], lastP))
								break
							}
						}
						r.Count("probes:monotonicity-pairs", 1)
					}
					if p > 0 && p <= nlist {
						prev, prevTie, lastP = full, tie, p
					}
					for _, v := range genVariants(rng, full, m, ids, 2) {
						bq := applyOpts(s.search(o).WithQuery(cloneF32(q)), v)
						got, err := bq.Execute()
						if err == nil && rng.IntN(4) == 0 {
							checkReexecute(rep, "ivf", bq, got)
							r.Count("probes:re-executed-search-object", 1)
						}
						if err != nil {
							rep("ivf.search-error", err.Error())
							continue
						}
						checkVariant(rep, "ivf.variant", full, got, v)
						r.Count("probes:restricted", 1)
					}
				}
			}
		}
		// several queries in ONE search at partial probe: every query is probed in ITS OWN nearest clusters, so the
		// answer is the aggregate of the answers the same queries get one at a time (metamorphic, as in C02)
		multiProbe := func() {
			if nlist < 2 || len(m.live) == 0 {
				return
			}
			nq := 2 + rng.IntN(2)
			var qs [][]float32
			for i := 0; i < nq; i++ {
				q := vg.query()
				if live := m.liveIDs(); i > 0 && rng.IntN(2) == 0 {
					q = cloneF32(m.raw[live[rng.IntN(len(live))]]) // right at a stored vector: usually another cluster than q0
				}
				qs = append(qs, q)
			}
			pN := 1 + rng.IntN(nlist-1)
			o := vecProbeOpts{NProbes: pN}
			rule := []comet.ScoreAggregationKind{comet.SumAggregation, comet.MaxAggregation, comet.MeanAggregation}[rng.IntN(3)]
			var per [][]comet.VectorResult
			pqs := make([][]float32, 0, nq)
			for _, q := range qs {
				res, err := s.search(o).WithQuery(cloneF32(q)).WithK(0).Execute()
				if err != nil {
					rep("ivf.search-error", err.Error())
					return
				}
				per = append(per, res)
				pqs = append(pqs, cloneF32(q))
			}
			got, err := s.search(o).WithQuery(pqs...).WithK(0).WithScoreAggregation(rule).Execute()
			if err != nil {
				rep("ivf.search-error", "multi-query: "+err.Error())
				return
			}
			checkMultiQuery(rep, "ivf", rule, per, got, 0)
			r.Count("probes:multi-query-at-partial-probe", 1)
		}
		nOps := 6 + rng.IntN(30)
		for op := 0; op < nOps; op++ {
			c := rng.IntN(10)
			switch {
			case c < 6 || len(m.live) == 0:
				id, v := ids.next(), vg.fresh()
				if rng.IntN(3) == 0 {
					v = cloneF32(trainRaw[rng.IntN(len(trainRaw))])
				}
				hist = append(hist, histOp{Op: "add", ID: id, Vec: cloneF32(v)})
				if err := idx.Add(*comet.NewVectorNodeWithID(id, cloneF32(v))); err != nil {
					rep("ivf.add-error", err.Error())
					return
				}
				m.add(id, v)
				membership()
			case c < 8:
				live := m.liveIDs()
				id := live[rng.IntN(len(live))]
				hist = append(hist, histOp{Op: "remove", ID: id})
				if err := idx.Remove(*comet.NewVectorNodeWithID(id, nil)); err != nil {
					rep("ivf.remove-error", err.Error())
				}
				m.remove(id)
				removals++
				if rng.IntN(2) == 0 {
					// update = remove + add of the same id (no Flush): usually into another cluster
					v := vg.fresh()
					for j := range v {
						v[j] = -3*m.raw[id][j] + v[j]
					}
					nz := false
					for _, x := range v {
						if x != 0 {
							nz = true
						}
					}
					if !nz {
						v[0] = 1
					}
					hist = append(hist, histOp{Op: "re-add", ID: id, Vec: cloneF32(v)})
					if err := idx.Add(*comet.NewVectorNodeWithID(id, cloneF32(v))); err != nil {
						rep("ivf.readd-error", err.Error())
						return
					}
					m.add(id, v)
					membership()
					r.Count("ops:re-add-removed-id", 1)
				}
			default:
				hist = append(hist, histOp{Op: "flush"})
				if err := idx.Flush(); err != nil {
					rep("ivf.flush-error", err.Error())
				}
				m.flush()
				flushes++
				membership()
			}
			if op%2 == 1 || op == nOps-1 {
				probe()
				multiProbe()
			}
		}
		// the last act of every fourth case: the POPULATED index is trained again, on other data. Where the stored vectors
		// end up is the implementation's business (so nothing cluster-specific is asserted any more), but at full probe
		// every live vector is still there with its true distance, and nothing else is
		if ci%4 == 2 && len(m.live) > 0 {
			re := make([]comet.VectorNode, nlist+10+rng.IntN(20))
			for i := range re {
				v := vg.fresh()
				for j := range v {
					v[j] = v[j]*2 + 1
				}
				re[i] = *comet.NewVectorNodeWithID(uint32(i+1), v)
			}
			if err := idx.Train(re); err == nil {
				hist = append(hist, histOp{Op: "train-again"})
				for t := 0; t < 3; t++ {
					q := vg.query()
					res, err := idx.NewSearch().WithQuery(cloneF32(q)).WithK(0).WithNProbes(nlist).Execute()
					if err != nil {
						rep("ivf.search-error", "after re-training the populated index: "+err.Error())
						break
					}
					checkListing(func(sig, what string) { rep(sig, "after re-training the populated index: "+what) }, "ivf.full", toListing(res), m.live, m.live, func(id uint32) (float64, float64) {
						d := trueDist(metric, q, m.raw[id])
						return d, distTol(metric, s.dim, d)
					}, r)
				}
				r.Count("ops:train-again-on-a-populated-index", 1)
			}
		}
		if r.WantSample() && ci%40 == 0 {
			h := hist
			if len(h) > 5 {
				h = h[:5]
			}
			r.Sample(map[string]any{"metric": metric, "params": s.params, "history_head": h})
		}
		r.Eval(nlist >= 2 && partial > 0 && removals > 0 && flushes > 0, ev.Digest(metric, s.params, len(hist), ci))
	})
}
