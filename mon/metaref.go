package mon

import (
	"fmt"
	"math"
	"math/rand/v2"
	"sort"

	"github.com/wizenheimer/comet"
)

// ---------------------------------------------------------------------------
// metadata reference model (written from the C04 text) and generators
// ---------------------------------------------------------------------------

type fieldType int

const (
	ftString fieldType = iota
	ftBool
	ftInt
	ftFloat
	ftAbsent // a field no document carries: categorical complement semantics, ordering comparisons match nothing
)

func (t fieldType) String() string { return [...]string{"string", "bool", "int", "float", "absent"}[t] }
func (t fieldType) numeric() bool  { return t == ftInt || t == ftFloat }

type metaSchema struct {
	names []string
	types map[string]fieldType
}

// fixed-point conversion of C04: floats are compared at two decimals. Generated floats are chosen so
// that truncation, rounding and floor of v*100 agree (multiples of 0.25, and (n+0.3)/100 for n>=0).
// For NEGATIVE floats with more than two decimals the three usual readings of "two-decimal fixed point" differ
// (truncate towards zero, floor, round to nearest): the property does not pick one, only that stored values and
// filter operands are converted the same way. The model is therefore evaluated under each reading (fxMode) and an
// answer equal to any of them is accepted (metaExpect).
func fxWith(mode int, v float64) int64 {
	switch mode {
	case 1:
		return int64(math.Floor(v * 100))
	case 2:
		return int64(math.Round(v * 100))
	}
	return int64(v * 100)
}

func fx(v float64) int64 { return fxWith(0, v) }

func (m *metaModel) numKey(t fieldType, v any) int64 {
	switch x := v.(type) {
	case int:
		return int64(x)
	case int64:
		return x
	case float64:
		return fxWith(m.fxMode, x)
	}
	panic(fmt.Sprintf("numKey: %T", v))
}

type metaModel struct {
	schema *metaSchema
	docs   map[uint32]map[string]any
	fxMode int // 0 truncate, 1 floor, 2 round
}

func newMetaModel(s *metaSchema) *metaModel {
	return &metaModel{schema: s, docs: map[uint32]map[string]any{}}
}

func (m *metaModel) liveIDs() []uint32 {
	out := make([]uint32, 0, len(m.docs))
	for id := range m.docs {
		out = append(out, id)
	}
	sort.Slice(out, func(i, j int) bool { return out[i] < out[j] })
	return out
}

// evalFilter: does document d satisfy f? ok=false means the filter is outside the sharply defined part
// of C04 (field absent from the schema, operator/type combination the property does not define).
func (m *metaModel) evalFilter(f comet.Filter, d map[string]any, types map[string]fieldType) (match bool, ok bool) {
	ft, known := types[f.Field]
	v, has := d[f.Field]
	switch f.Operator {
	case comet.OpExists:
		return has, true
	case comet.OpNotExists:
		return !has, true
	}
	if !known {
		return false, false
	}
	if ft.numeric() {
		switch f.Operator {
		case comet.OpEqual, "":
			return has && m.numKey(ft, v) == m.numKey(ft, f.Value), true
		case comet.OpNotEqual:
			return has && m.numKey(ft, v) != m.numKey(ft, f.Value), true
		case comet.OpGreaterThan:
			return has && m.numKey(ft, v) > m.numKey(ft, f.Value), true
		case comet.OpGreaterThanOrEqual:
			return has && m.numKey(ft, v) >= m.numKey(ft, f.Value), true
		case comet.OpLessThan:
			return has && m.numKey(ft, v) < m.numKey(ft, f.Value), true
		case comet.OpLessThanOrEqual:
			return has && m.numKey(ft, v) <= m.numKey(ft, f.Value), true
		case comet.OpRange:
			return has && m.numKey(ft, v) >= m.numKey(ft, f.Value) && m.numKey(ft, v) <= m.numKey(ft, f.Value2), true
		case "not_range": // Not(range): complement inside the universe of documents carrying the field
			return has && !(m.numKey(ft, v) >= m.numKey(ft, f.Value) && m.numKey(ft, v) <= m.numKey(ft, f.Value2)), true
		}
		return false, false
	}
	str := func(x any) string { return fmt.Sprintf("%v", x) }
	switch f.Operator {
	case comet.OpGreaterThan, comet.OpGreaterThanOrEqual, comet.OpLessThan, comet.OpLessThanOrEqual, comet.OpRange, "not_range":
		// an ordering comparison on a field that NO document carries matches nothing; on a field that is known
		// to be categorical the property defines nothing
		if !has && ft == ftAbsent {
			return false, true
		}
		return false, false
	case comet.OpEqual, "":
		return has && str(v) == str(f.Value), true
	case comet.OpNotEqual:
		return !(has && str(v) == str(f.Value)), true
	case comet.OpIn, comet.OpNotIn:
		in := false
		switch vals := f.Value.(type) {
		case []any:
			for _, x := range vals {
				if has && str(v) == str(x) {
					in = true
				}
			}
		case []string:
			for _, x := range vals {
				if has && str(v) == x {
					in = true
				}
			}
		default:
			return false, false
		}
		if f.Operator == comet.OpIn {
			return in, true
		}
		return !in, true
	}
	return false, false
}

// modelFilter is a filter plus, for Not(range), the model-side operator.
type modelFilter struct {
	impl  comet.Filter // what is handed to comet
	model comet.Filter // what the model evaluates (differs only for Not(Range))
	desc  string
}

// A group whose first element is the marker below is a FilterGroup{Logic: OR}: the union of its filters
// (comet's public FilterGroup API; an empty group matches every document under either logic).
const opOrGroupMarker comet.Operator = "\x00or-group"

func orGroupMarker() modelFilter {
	f := comet.Filter{Operator: opOrGroupMarker}
	return modelFilter{impl: f, model: f, desc: "ANY-OF:"}
}

func splitGroup(g []modelFilter) (isOr bool, fs []modelFilter) {
	if len(g) > 0 && g[0].impl.Operator == opOrGroupMarker {
		return true, g[1:]
	}
	return false, g
}

// cometGroup builds the FilterGroup handed to comet.
func cometGroup(g []modelFilter) *comet.FilterGroup {
	isOr, fs := splitGroup(g)
	fg := &comet.FilterGroup{Logic: comet.AND}
	if isOr {
		fg.Logic = comet.OR
	}
	for _, f := range fs {
		fg.Filters = append(fg.Filters, f.impl)
	}
	return fg
}

// evalGroups: OR over groups of AND (or, for marked groups, OR) over filters; empty -> all live documents.
func (m *metaModel) evalGroups(groups [][]modelFilter, types map[string]fieldType) (ids map[uint32]bool, sharp bool) {
	ids = map[uint32]bool{}
	sharp = true
	for id, d := range m.docs {
		if len(groups) == 0 {
			ids[id] = true
			continue
		}
		any := false
		for _, g := range groups {
			isOr, fs := splitGroup(g)
			all, some := true, false
			for _, f := range fs {
				mt, ok := m.evalFilter(f.model, d, types)
				if !ok {
					sharp = false
				}
				if !mt {
					all = false
				} else {
					some = true
				}
			}
			if (!isOr && all) || (isOr && (some || len(fs) == 0)) {
				any = true
			}
		}
		if any {
			ids[id] = true
		}
	}
	return ids, sharp
}

// ------------------------------- generators -------------------------------

var metaFieldNames = []string{"color", "flag", "count", "price", "tag", "size", "ok", "score"}

func genSchema(rng *rand.Rand) *metaSchema {
	s := &metaSchema{types: map[string]fieldType{}}
	n := 3 + rng.IntN(3)
	perm := rng.Perm(len(metaFieldNames))
	for i := 0; i < n; i++ {
		name := metaFieldNames[perm[i]]
		var t fieldType
		if i < 4 {
			t = fieldType(i) // make sure every type occurs when n >= 4
		} else {
			t = fieldType(rng.IntN(4))
		}
		s.names = append(s.names, name)
		s.types[name] = t
	}
	return s
}

var metaStrings = []string{"", "red", "green", "blue", "a:b", ":", "red:", "x y", "Red", "true", "5"}
var metaInts = []int64{0, 1, -1, 2, -2, 5, -5, 7, 100, -100, 1 << 31, -(1 << 31), 1 << 62, -(1 << 62), 3, -3, 42, math.MaxInt64, math.MinInt64, math.MaxInt64 - 1, math.MinInt64 + 1}

func genValue(rng *rand.Rand, t fieldType) any {
	switch t {
	case ftString:
		return metaStrings[rng.IntN(len(metaStrings))]
	case ftBool:
		return rng.IntN(2) == 0
	case ftInt:
		v := metaInts[rng.IntN(len(metaInts))]
		if rng.IntN(3) == 0 {
			v = int64(rng.IntN(21) - 10)
		}
		if rng.IntN(2) == 0 {
			return int(v)
		}
		return v
	default:
		switch rng.IntN(6) {
		case 0, 1, 2:
			return float64(rng.IntN(81)-40) * 0.25 // exact, incl. negatives
		case 3:
			// negative with more than two decimals, or two decimals that are not exact in binary (-1.1, -0.29):
			// truncate / floor / round of v*100 differ; every reading applied consistently is accepted
			return -[]float64{1.1, 0.29, 19.99, 2.345, 0.3, 0.07, 1.005, 12.349, 0.001, 7.777}[rng.IntN(10)]
		}
		return (float64(rng.IntN(2000)) + 0.3) / 100 // > 2 decimals, non-negative
	}
}

func genMetadata(rng *rand.Rand, s *metaSchema) map[string]any {
	md := map[string]any{}
	for _, name := range s.names {
		if rng.IntN(3) > 0 {
			md[name] = genValue(rng, s.types[name])
		}
	}
	return md
}

// genOperand draws an operand for field f: often a value present in the data.
func genOperand(rng *rand.Rand, t fieldType, present []any) any {
	if len(present) > 0 && rng.IntN(3) > 0 {
		return present[rng.IntN(len(present))]
	}
	return genValue(rng, t)
}

// genLeaf draws one filter (possibly wrapped in Not) for the schema; absentField makes it refer to a
// field that is not part of the schema at all.
func genLeaf(rng *rand.Rand, m *metaModel, absentField bool) modelFilter {
	s := m.schema
	name := s.names[rng.IntN(len(s.names))]
	t := s.types[name]
	if absentField {
		name = "nosuchfield"
		t = fieldType(rng.IntN(4))
	}
	var present []any
	for _, id := range m.liveIDs() {
		if v, ok := m.docs[id][name]; ok {
			present = append(present, v)
		}
	}
	op := func() any { return genOperand(rng, t, present) }
	var f comet.Filter
	var desc string
	if t.numeric() {
		switch rng.IntN(10) {
		case 0:
			f = comet.Eq(name, op())
		case 1:
			f = comet.Ne(name, op())
		case 2:
			f = comet.Gt(name, op())
		case 3:
			f = comet.Gte(name, op())
		case 4:
			f = comet.Lt(name, op())
		case 5:
			f = comet.Lte(name, op())
		case 6, 7:
			a, b := op(), op()
			if m.numKey(t, a) > m.numKey(t, b) && rng.IntN(4) > 0 {
				a, b = b, a
			}
			f = comet.Range(name, a, b)
			if rng.IntN(2) == 0 {
				f = comet.Between(name, a, b)
			}
		case 8:
			f = comet.Exists(name)
			if rng.IntN(3) == 0 {
				f = comet.IsNotNull(name) // documented alias
			}
		default:
			f = comet.NotExists(name)
			if rng.IntN(3) == 0 {
				f = comet.IsNull(name) // documented alias
			}
		}
	} else {
		list := func() []any {
			n := rng.IntN(4)
			l := make([]any, n)
			for i := range l {
				l[i] = op()
			}
			return l
		}
		switch rng.IntN(8) {
		case 0, 1:
			f = comet.Eq(name, op())
		case 2:
			f = comet.Ne(name, op())
		case 3:
			f = comet.In(name, list()...)
			if rng.IntN(3) == 0 {
				f = comet.AnyOf(name, list()...) // documented alias
			}
		case 4:
			f = comet.NotIn(name, list()...)
			if rng.IntN(3) == 0 {
				f = comet.NoneOf(name, list()...) // documented alias
			}
		case 5:
			f = comet.Exists(name)
			if rng.IntN(3) == 0 {
				f = comet.IsNotNull(name) // documented alias
			}
		case 6:
			f = comet.NotExists(name)
			if rng.IntN(3) == 0 {
				f = comet.IsNull(name) // documented alias
			}
		default:
			if t == ftString {
				var l []string
				for _, x := range list() {
					l = append(l, x.(string))
				}
				if l == nil {
					l = []string{}
				}
				f = comet.Filter{Field: name, Operator: []comet.Operator{comet.OpIn, comet.OpNotIn}[rng.IntN(2)], Value: l}
			} else {
				f = comet.IsNotNull(name)
			}
		}
	}
	mf := modelFilter{impl: f, model: f}
	desc = fmt.Sprintf("%s(%s:%s %v", f.Operator, name, t, f.Value)
	if f.Operator == comet.OpRange {
		desc += fmt.Sprintf(",%v", f.Value2)
	}
	desc += ")"
	if rng.IntN(3) == 0 {
		// Not(f): complement of f within f's own universe
		nf := comet.Not(f)
		mm := modelNot(f)
		mf = modelFilter{impl: nf, model: mm}
		desc = "Not " + desc
	}
	mf.desc = desc
	return mf
}

// modelNot is the C04 meaning of Not(f), independent of comet.Not.
func modelNot(f comet.Filter) comet.Filter {
	g := f
	switch f.Operator {
	case comet.OpEqual, "":
		g.Operator = comet.OpNotEqual
	case comet.OpNotEqual:
		g.Operator = comet.OpEqual
	case comet.OpGreaterThan:
		g.Operator = comet.OpLessThanOrEqual
	case comet.OpGreaterThanOrEqual:
		g.Operator = comet.OpLessThan
	case comet.OpLessThan:
		g.Operator = comet.OpGreaterThanOrEqual
	case comet.OpLessThanOrEqual:
		g.Operator = comet.OpGreaterThan
	case comet.OpIn:
		g.Operator = comet.OpNotIn
	case comet.OpNotIn:
		g.Operator = comet.OpIn
	case comet.OpExists:
		g.Operator = comet.OpNotExists
	case comet.OpNotExists:
		g.Operator = comet.OpExists
	case comet.OpRange:
		g.Operator = "not_range"
	}
	return g
}
