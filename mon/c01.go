package mon

import (
	"fmt"
	"math/rand/v2"

	"github.com/wizenheimer/comet"

	"verif/internal/ev"
)

func init() { register("C01", "exploration", runC01) }

// histOp is one step of a generated Add/Remove/Flush history (recorded for witnesses).
type histOp struct {
	Op  string    `json:"op"`
	ID  uint32    `json:"id,omitempty"`
	Vec []float32 `json:"vec,omitempty"`
}

func runC01(r *ev.Run) {
	r.Rule = "case = (dim, metric, generated Add/Remove/Flush history over distinct non-zero ids); after every mutating op 2-4 queries, each answered once completely " +
		"(checked against the float64 reference model: exactly the live ids, true distances, ascending) and 4-6 times restricted (k over Z, threshold incl. bit-exact reported scores, " +
		"id restrictions incl. removed/never-added ids; decided exactly against the complete listing); non-trivial = history has >=1 removal and >=1 flush and >=1 probe returned results; distinct by history digest Since the seed waves: large indexes (255..2050 stored vectors), re-adds of removed ids, rejected adds inside the history, operations on the empty index first, double Flush, a held search object re-configured and re-executed across index changes, re-executed search objects, WithCutoff variants, restrictions of only removed ids, extreme k, almost-unit vectors, every vector handed over as a window into a larger buffer."
	r.Assumptions = []string{"oracle = brute-force float64 k-NN over the model's live set; tolerance scaled to float32 accumulation error",
		"threshold/k/id-restriction probes are decided bit-exactly against the implementation's own complete listing for the same query"}
	n := r.Pick(300, 9000)
	dims := []int{1, 2, 3, 8, 17, 64}
	r.CasesParallel("history", n, 16, func(ci int, rng *rand.Rand) {
		dim := pickDim(rng, dims)
		metric := allMetrics[rng.IntN(3)]
		idx, err := comet.NewFlatIndex(dim, metric)
		if err != nil {
			r.ViolationAt("history", ci, "flat.constructor", err.Error(), nil)
			return
		}
		m := newVecModel(metric, dim)
		ids := newIDGen(rng)
		vg := newVecGen(rng, dim)
		var hist []histOp
		var preRemoved []uint32
		rep := func(sig, what string) {
			h := hist
			if len(h) > 60 {
				h = h[len(h)-60:]
			}
			r.ViolationAt("history", ci, sig, what, map[string]any{"dim": dim, "metric": metric, "history_tail": h})
		}
		nOps := 10 + rng.IntN(70)
		removals, flushes, nonEmpty := 0, 0, 0
		// every tenth case starts from a LARGE index whose stored length sits next to a power of two (scan loops that
		// are unrolled, chunked or parallelised above a size threshold lose their remainder there); the history that
		// follows moves the length across the neighbouring residues one step at a time
		bulk := 0
		if ci%10 == 7 {
			bulk = []int{255, 256, 257, 258, 259, 511, 513, 1022, 1025, 2047, 2050}[rng.IntN(11)]
			if dim > 17 {
				bulk = min(bulk, 513)
			}
			nOps = 8 + rng.IntN(12)
			for i := 0; i < bulk; i++ {
				id, v := ids.next(), vg.fresh()
				if err := idx.Add(*comet.NewVectorNodeWithID(id, cloneF32(v))); err != nil {
					r.ViolationAt("history", ci, "flat.add-error", fmt.Sprintf("bulk Add(%d) failed: %v", id, err), nil)
					return
				}
				m.add(id, v)
			}
			hist = append(hist, histOp{Op: fmt.Sprintf("bulk-add x%d", bulk)})
			r.Count("cases:large-index", 1)
			r.Count("ops:add", int64(bulk))
		}
		var held *heldSearch
		probe := func() {
			// one long-lived search object per case, executed again and again while the index changes under it
			if held == nil || rng.IntN(8) == 0 {
				held = newHeldSearch(func() comet.VectorSearch { return idx.NewSearch() })
				hq := vg.query()
				held.step("WithQuery", func(s comet.VectorSearch) comet.VectorSearch { return s.WithQuery(cloneF32(hq)) })
			} else {
				heldSearchStep(rng, held, vg.query(), m.liveIDs(), len(m.live))
			}
			if !held.compare(rep, "flat") {
				held = nil
			}
			r.Count("probes:held-search-object", 1)
			nq := 2 + rng.IntN(3)
			for qi := 0; qi < nq; qi++ {
				q := vg.query()
				res, err := idx.NewSearch().WithQuery(cloneF32(q)).WithK(0).Execute()
				if err != nil {
					rep("flat.search-error", fmt.Sprintf("search failed: %v", err))
					continue
				}
				full := toListing(res)
				checkListing(rep, "flat.full", full, m.live, m.live, func(id uint32) (float64, float64) {
					d := trueDist(metric, q, m.raw[id])
					return d, distTol(metric, dim, d)
				}, r)
				if len(full.ids) > 0 {
					nonEmpty++
				}
				for _, o := range genVariants(rng, full, m, ids, 4+rng.IntN(3)) {
					b := applyOpts(idx.NewSearch().WithQuery(cloneF32(q)), o)
					got, err := b.Execute()
					if err != nil {
						rep("flat.search-error", fmt.Sprintf("restricted search failed: %v", err))
						continue
					}
					checkVariant(rep, "flat.variant", full, got, o)
					if rng.IntN(4) == 0 {
						checkReexecute(rep, "flat", b, got)
						r.Count("probes:re-executed-search-object", 1)
					}
					r.Count("probes:restricted", 1)
					if o.Threshold > 0 {
						if _, ok := scoreSet(full)[o.Threshold]; ok {
							r.Count("probes:threshold-equals-reported-score", 1)
						}
					}
				}
				r.Count("probes:complete", 1)
			}
		}
		if bulk > 0 {
			probe()
		} else if ci%4 == 1 {
			// the first operations on a fresh, EMPTY index are a search, a Flush and a failing Remove
			probe()
			if err := idx.Flush(); err != nil {
				rep("flat.flush-error", "Flush of an empty index: "+err.Error())
			}
			if err := idx.Remove(*comet.NewVectorNodeWithID(ids.absent(), nil)); err == nil {
				rep("flat.remove-absent-succeeds", "Remove on an empty index returned nil")
			}
			probe()
			hist = append(hist, histOp{Op: "search+flush+remove on the empty index"})
			r.Count("cases:started-with-operations-on-the-empty-index", 1)
		}
		for op := 0; op < nOps; op++ {
			c := rng.IntN(10)
			switch {
			case c < 5 || len(m.live) == 0:
				id := ids.next()
				if len(preRemoved) > 0 && rng.IntN(3) == 0 {
					// an id whose Remove failed earlier (it was not in the index) is a perfectly fresh id
					id = preRemoved[len(preRemoved)-1]
					preRemoved = preRemoved[:len(preRemoved)-1]
					r.Count("ops:add-after-failed-remove", 1)
				}
				v := vg.fresh()
				hist = append(hist, histOp{Op: "add", ID: id, Vec: cloneF32(v)})
				if err := idx.Add(*comet.NewVectorNodeWithID(id, cloneF32(v))); err != nil {
					rep("flat.add-error", fmt.Sprintf("Add(%d) failed: %v", id, err))
					return
				}
				m.add(id, v)
				r.Count("ops:add", 1)
			case c < 8:
				live := m.liveIDs()
				id := live[rng.IntN(len(live))]
				hist = append(hist, histOp{Op: "remove", ID: id})
				if err := idx.Remove(*comet.NewVectorNodeWithID(id, nil)); err != nil {
					rep("flat.remove-error", fmt.Sprintf("Remove(%d) of a live id failed: %v", id, err))
				}
				m.remove(id)
				removals++
				r.Count("ops:remove", 1)
				probe() // immediately after a soft delete
				if rng.IntN(3) == 0 {
					// update = remove + add of the same id while the tombstone is pending: only the NEW vector is live
					v := vg.fresh()
					if rng.IntN(4) == 0 {
						v = cloneF32(m.raw[id])
					}
					hist = append(hist, histOp{Op: "re-add", ID: id, Vec: cloneF32(v)})
					if err := idx.Add(*comet.NewVectorNodeWithID(id, cloneF32(v))); err != nil {
						rep("flat.add-error", fmt.Sprintf("re-add of removed id %d failed: %v", id, err))
						return
					}
					m.add(id, v)
					r.Count("ops:re-add-removed-id", 1)
				}
			case c < 9:
				hist = append(hist, histOp{Op: "flush"})
				if err := idx.Flush(); err != nil {
					rep("flat.flush-error", err.Error())
				}
				m.flush()
				flushes++
				r.Count("ops:flush", 1)
				if rng.IntN(3) == 0 { // Flush is idempotent: a second one right away changes nothing
					if err := idx.Flush(); err != nil {
						rep("flat.flush-error", "second Flush in a row: "+err.Error())
					}
					hist = append(hist, histOp{Op: "flush"})
					r.Count("ops:flush-twice-in-a-row", 1)
				}
			default:
				if rng.IntN(3) == 0 {
					// a rejected Add (wrong dimension; zero vector under cosine) changes nothing: the probes that follow
					// compare with the unchanged model
					bad := make([]float32, dim+1+rng.IntN(2))
					for j := range bad {
						bad[j] = 1
					}
					what := "wrong dimension"
					if metric == comet.Cosine && rng.IntN(2) == 0 {
						bad, what = make([]float32, dim), "zero vector under cosine"
					}
					id := ids.next()
					hist = append(hist, histOp{Op: "rejected-add (" + what + ")", ID: id})
					if err := idx.Add(*comet.NewVectorNodeWithID(id, bad)); err == nil {
						rep("flat.invalid-add-accepted", fmt.Sprintf("Add accepted a vector with %s", what))
						return
					}
					preRemoved = append(preRemoved, id) // the id stays perfectly fresh
					r.Count("ops:rejected-add", 1)
					break
				}
				// removing an unknown or already removed id must fail and change nothing
				id := ids.next() // never added so far; may be added later (see preRemoved)
				fresh := true
				if len(m.removed) > 0 && rng.IntN(2) == 0 {
					rm := sortedKeys(m.removed)
					id = rm[rng.IntN(len(rm))]
					fresh = false
				}
				if fresh {
					preRemoved = append(preRemoved, id)
				}
				hist = append(hist, histOp{Op: "remove-absent", ID: id})
				if err := idx.Remove(*comet.NewVectorNodeWithID(id, nil)); err == nil {
					rep("flat.remove-absent-succeeds", fmt.Sprintf("Remove(%d) of an unknown/removed id returned nil", id))
				}
				r.Count("ops:remove-absent", 1)
			}
			probe()
		}
		// rejected inputs
		if err := idx.Add(*comet.NewVectorNodeWithID(ids.next(), make([]float32, dim+1))); err == nil {
			rep("flat.wrong-dim-accepted", "Add accepted a vector of the wrong dimension")
		}
		if metric == comet.Cosine {
			if err := idx.Add(*comet.NewVectorNodeWithID(ids.next(), make([]float32, dim))); err == nil {
				rep("flat.zero-accepted", "cosine index accepted a zero vector")
			}
		}
		if _, err := idx.NewSearch().WithQuery(make([]float32, dim+1)).Execute(); err == nil {
			rep("flat.wrong-dim-query-accepted", "search accepted a query of the wrong dimension")
		}
		if r.WantSample() && ci%40 == 0 {
			h := hist
			if len(h) > 12 {
				h = h[:12]
			}
			r.Sample(map[string]any{"dim": dim, "metric": metric, "ops": len(hist), "history_head": h})
		}
		r.Eval(removals > 0 && flushes > 0 && nonEmpty > 0, ev.Digest(dim, metric, len(hist), fmt.Sprint(hist[0]), ci))
	})
}

func scoreSet(l *listing) map[float32]bool {
	s := map[float32]bool{}
	for _, x := range l.scores {
		s[x] = true
	}
	return s
}
