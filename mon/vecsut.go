package mon

import (
	"fmt"
	"math"
	"math/rand/v2"
	"sort"

	"github.com/wizenheimer/comet"
)

// ---------------------------------------------------------------------------
// the five vector index kinds behind one adapter: construction, training, and the kind's
// definition of "searched set" and "score" (read through the verif accessors where needed)
// ---------------------------------------------------------------------------

type vecSUT struct {
	kind   string
	idx    comet.VectorIndex
	dim    int
	metric comet.DistanceKind
	dist   comet.Distance
	nlist  int
	hM     int // HNSW M
	hEf    int
	pqM    int
	nbits  int
	params string
}

var vecKindNames = []string{"flat", "hnsw", "ivf", "pq", "ivfpq"}

// newVecSUT builds and (if needed) trains an index of the given kind with PRNG-chosen parameters.
// nbitsMax bounds the PQ code size (C02 quantifies nbits<=8; C14 goes to whatever is accepted).
func newVecSUT(rng *rand.Rand, kind string, metric comet.DistanceKind, vg func(dim int) *vecGen, nbitsChoices []int) (*vecSUT, *vecGen, error) {
	s := &vecSUT{kind: kind, metric: metric}
	s.dist, _ = comet.NewDistance(metric)
	var err error
	switch kind {
	case "flat":
		s.dim = pickDim(rng, []int{1, 2, 3, 8, 17})
		s.idx, err = comet.NewFlatIndex(s.dim, metric)
		s.params = fmt.Sprintf("dim=%d", s.dim)
	case "hnsw":
		s.dim = pickDim(rng, []int{1, 2, 3, 8, 16})
		s.hM = []int{2, 4, 16}[rng.IntN(3)]
		s.hEf = s.hM * (1 + rng.IntN(8))
		s.idx, err = comet.NewHNSWIndex(s.dim, metric, s.hM, s.hEf, s.hEf)
		s.params = fmt.Sprintf("dim=%d M=%d ef=%d", s.dim, s.hM, s.hEf)
	case "ivf":
		s.dim = pickDim(rng, []int{1, 2, 3, 8, 16})
		s.nlist = []int{1, 3, 8}[rng.IntN(3)]
		s.idx, err = comet.NewIVFIndex(s.dim, s.nlist, metric)
		s.params = fmt.Sprintf("dim=%d nlist=%d", s.dim, s.nlist)
	case "pq":
		s.pqM = []int{1, 2, 4}[rng.IntN(3)]
		s.dim = s.pqM * (1 + rng.IntN(4))
		if rng.IntN(5) == 0 {
			// many subspaces: a code of M*nbits bits no longer fits one machine word
			s.pqM = []int{12, 20}[rng.IntN(2)]
			s.dim = s.pqM * (1 + rng.IntN(2))
		}
		s.nbits = nbitsChoices[rng.IntN(len(nbitsChoices))]
		s.idx, err = comet.NewPQIndex(s.dim, metric, s.pqM, s.nbits)
		s.params = fmt.Sprintf("dim=%d M=%d nbits=%d", s.dim, s.pqM, s.nbits)
	case "ivfpq":
		s.pqM = []int{1, 2, 4}[rng.IntN(3)]
		s.dim = s.pqM * (1 + rng.IntN(4))
		s.nbits = nbitsChoices[rng.IntN(len(nbitsChoices))]
		s.nlist = []int{1, 2, 4}[rng.IntN(3)]
		s.idx, err = comet.NewIVFPQIndex(s.dim, metric, s.nlist, s.pqM, s.nbits)
		s.params = fmt.Sprintf("dim=%d nlist=%d M=%d nbits=%d", s.dim, s.nlist, s.pqM, s.nbits)
	default:
		return nil, nil, fmt.Errorf("unknown kind %s", kind)
	}
	if err != nil {
		return s, nil, err
	}
	g := vg(s.dim)
	// training
	nTrain := 0
	switch kind {
	case "ivf":
		nTrain = s.nlist + rng.IntN(60)
		if rng.IntN(5) == 0 {
			nTrain = s.nlist // exactly one training vector per cluster (k = n in k-means)
		}
	case "pq":
		nTrain = (1 << s.nbits) + rng.IntN(60)
	case "ivfpq":
		nTrain = max(s.nlist*10, 1<<s.nbits) + rng.IntN(60)
	}
	if nTrain > 0 {
		nodes := make([]comet.VectorNode, nTrain)
		for i := range nodes {
			nodes[i] = *comet.NewVectorNodeWithID(uint32(i+1), g.fresh())
		}
		if err := s.idx.Train(nodes); err != nil {
			return s, g, fmt.Errorf("train: %w", err)
		}
		if rng.IntN(4) == 0 {
			// Train a second time on the very same data: the same index as after one training (or an error)
			d1, ok := trainedStateDigest(s.idx)
			if err := s.idx.Train(nodes); err == nil && ok {
				if d2, _ := trainedStateDigest(s.idx); d2 != d1 {
					return s, g, fmt.Errorf("train: a second Train on the same data changed the centroids / codebooks (kind=%s ntrain=%d)", kind, nTrain)
				}
			}
		}
		if scribbleAndCheck(s.idx, nodes) {
			return s, g, fmt.Errorf("train: the trained centroids / codebooks changed when the caller overwrote its training vectors after Train had returned (they alias the training data); kind=%s ntrain=%d", kind, nTrain)
		}
		s.params += fmt.Sprintf(" ntrain=%d", nTrain)
	}
	return s, g, nil
}

// combos enumerates all r-subsets of items (caller bounds the count).
func combos(items []int, r int) [][]int {
	var out [][]int
	var rec func(start int, cur []int)
	rec = func(start int, cur []int) {
		if len(cur) == r {
			out = append(out, append([]int(nil), cur...))
			return
		}
		for i := start; i < len(items); i++ {
			rec(i+1, append(cur, items[i]))
		}
	}
	rec(0, nil)
	return out
}

func binom(n, r int) float64 {
	if r < 0 || r > n {
		return 0
	}
	b := 1.0
	for i := 0; i < r; i++ {
		b = b * float64(n-i) / float64(i+1)
	}
	return b
}

// probedClusterChoices returns every legal set of p nearest clusters for the (preprocessed) query:
// distances are computed with comet's own Distance.Calculate on the centroids read through the accessor,
// so a tie means bit-equal. ok=false: too many tied choices (ambiguous) or a non-finite distance.
func probedClusterChoices(dist comet.Distance, pq []float32, centroids [][]float32, p int) (choices [][]int, ok bool, why string) {
	n := len(centroids)
	if p <= 0 || p > n {
		p = n
	}
	type cd struct {
		i int
		d float32
	}
	ds := make([]cd, n)
	for i, c := range centroids {
		d := dist.Calculate(pq, c)
		if math.IsNaN(float64(d)) {
			return nil, false, "nan-centroid-distance"
		}
		ds[i] = cd{i, d}
	}
	sort.SliceStable(ds, func(a, b int) bool { return ds[a].d < ds[b].d })
	if p == n {
		all := make([]int, n)
		for i := range all {
			all[i] = i
		}
		return [][]int{all}, true, ""
	}
	t := ds[p-1].d
	var sure, tied []int
	for _, x := range ds {
		if x.d < t {
			sure = append(sure, x.i)
		} else if x.d == t {
			tied = append(tied, x.i)
		}
	}
	need := p - len(sure)
	if binom(len(tied), need) > 64 {
		return nil, false, "too-many-tied-clusters"
	}
	for _, c := range combos(tied, need) {
		choices = append(choices, append(append([]int(nil), sure...), c...))
	}
	return choices, true, ""
}

// expectation describes what a complete listing must look like for one query.
type expectation struct {
	universes []map[uint32]bool                  // legal searched sets (nil slice = soundness only)
	scoreFn   func(id uint32) (float64, float64) // expected score and tolerance
	note      string
}

// adcRef is the asymmetric distance between a (residual) query and a code, in float64.
func adcRef(q []float32, codebooks [][]float32, code []uint8, dsub int) float64 {
	var s float64
	for m := range codebooks {
		cw := codebooks[m][int(code[m])*dsub : (int(code[m])+1)*dsub]
		for j := 0; j < dsub; j++ {
			d := float64(q[m*dsub+j]) - float64(cw[j])
			s += d * d
		}
	}
	return math.Sqrt(s)
}

// expect computes the expectation for query q under nprobes (ignored by non-IVF kinds).
func (s *vecSUT) expect(q []float32, m *vecModel, nprobes int) (expectation, error) {
	trueScore := func(id uint32) (float64, float64) {
		d := trueDist(s.metric, q, m.raw[id])
		return d, distTol(s.metric, s.dim, d)
	}
	switch s.kind {
	case "flat":
		return expectation{universes: []map[uint32]bool{m.live}, scoreFn: trueScore}, nil
	case "hnsw":
		return expectation{universes: nil, scoreFn: trueScore, note: "approximate: soundness only"}, nil
	case "ivf":
		st := comet.VerifIVFState(s.idx.(*comet.IVFIndex))
		pq, err := s.dist.Preprocess(cloneF32(q))
		if err != nil {
			return expectation{}, err
		}
		choices, ok, why := probedClusterChoices(s.dist, pq, st.Centroids, nprobes)
		if !ok {
			return expectation{universes: nil, scoreFn: trueScore, note: why}, nil
		}
		var us []map[uint32]bool
		for _, ch := range choices {
			u := map[uint32]bool{}
			for _, li := range ch {
				for _, e := range st.Lists[li] {
					if m.live[e.ID] {
						u[e.ID] = true
					}
				}
			}
			us = append(us, u)
		}
		return expectation{universes: us, scoreFn: trueScore}, nil
	case "pq":
		st := comet.VerifPQState(s.idx.(*comet.PQIndex))
		pq, err := s.dist.Preprocess(cloneF32(q))
		if err != nil {
			return expectation{}, err
		}
		codes := map[uint32][]uint8{}
		for _, e := range st.Entries {
			codes[e.ID] = e.Code
		}
		return expectation{universes: []map[uint32]bool{m.live}, scoreFn: func(id uint32) (float64, float64) {
			c, ok := codes[id]
			if !ok {
				return math.NaN(), 0
			}
			d := adcRef(pq, st.Codebooks, c, st.Dsub)
			return d, relTolL2(s.dim)*d + 1e-6*math.Sqrt(float64(s.dim))*1e-3 + 1e-30
		}}, nil
	case "ivfpq":
		st := comet.VerifIVFPQState(s.idx.(*comet.IVFPQIndex))
		pq, err := s.dist.Preprocess(cloneF32(q))
		if err != nil {
			return expectation{}, err
		}
		choices, ok, why := probedClusterChoices(s.dist, pq, st.Centroids, nprobes)
		type loc struct {
			list int
			code []uint8
		}
		where := map[uint32]loc{}
		for li, l := range st.Lists {
			for _, e := range l {
				where[e.ID] = loc{li, e.Code}
			}
		}
		scoreFn := func(id uint32) (float64, float64) {
			w, ok := where[id]
			if !ok {
				return math.NaN(), 0
			}
			res := make([]float32, s.dim)
			for j := range res {
				res[j] = pq[j] - st.Centroids[w.list][j]
			}
			d := adcRef(res, st.Codebooks, w.code, st.Dsub)
			return d, relTolL2(s.dim)*d + 1e-9*float64(s.dim) + 1e-30
		}
		if !ok {
			return expectation{universes: nil, scoreFn: scoreFn, note: why}, nil
		}
		var us []map[uint32]bool
		for _, ch := range choices {
			u := map[uint32]bool{}
			for _, li := range ch {
				for _, e := range st.Lists[li] {
					if m.live[e.ID] {
						u[e.ID] = true
					}
				}
			}
			us = append(us, u)
		}
		return expectation{universes: us, scoreFn: scoreFn}, nil
	}
	return expectation{}, fmt.Errorf("kind %s", s.kind)
}

// checkListingAlts is checkListing over several legal universes: passes if any one fits.
func checkListingAlts(rep reporter, tag string, l *listing, live map[uint32]bool, e expectation) (ambiguous bool) {
	if e.universes == nil {
		checkListing(rep, tag, l, live, nil, e.scoreFn, nil)
		return true
	}
	if len(e.universes) == 1 {
		checkListing(rep, tag, l, live, e.universes[0], e.scoreFn, nil)
		return false
	}
	for _, u := range e.universes {
		bad := false
		checkListing(func(string, string) { bad = true }, tag, l, live, u, e.scoreFn, nil)
		if !bad {
			return false
		}
	}
	checkListing(rep, tag+".no-legal-tie-choice-fits", l, live, e.universes[0], e.scoreFn, nil)
	return false
}

// scribbleOver overwrites the caller's training vectors after Train has returned: the buffers belong to the caller,
// who is free to reuse them; a trained index that still points into them (centroids or codebooks aliasing the
// training data) changes its answers from here on.
func scribbleOver(nodes []comet.VectorNode) {
	for i := range nodes {
		v := nodes[i].Vector()
		for j := range v {
			v[j] = float32(1e6)
			if (i+j)%2 == 1 {
				v[j] = -float32(1e6)
			}
		}
	}
}

// trainedStateDigest hashes what training produced (centroids, codebooks), read through the verif accessors.
func trainedStateDigest(idx comet.VectorIndex) (uint64, bool) {
	var parts [][]float32
	switch x := idx.(type) {
	case *comet.IVFIndex:
		parts = comet.VerifIVFState(x).Centroids
	case *comet.PQIndex:
		parts = comet.VerifPQState(x).Codebooks
	case *comet.IVFPQIndex:
		st := comet.VerifIVFPQState(x)
		parts = append(append(parts, st.Centroids...), st.Codebooks...)
	default:
		return 0, false
	}
	h := uint64(1469598103934665603)
	for _, p := range parts {
		for _, v := range p {
			h ^= uint64(math.Float32bits(v))
			h *= 1099511628211
		}
		h ^= 0xff
		h *= 1099511628211
	}
	return h, true
}

// scribbleAndCheck overwrites the caller's training buffers and reports whether the trained state moved with them.
func scribbleAndCheck(idx comet.VectorIndex, nodes []comet.VectorNode) (aliased bool) {
	before, ok := trainedStateDigest(idx)
	scribbleOver(nodes)
	after, _ := trainedStateDigest(idx)
	return ok && before != after
}
