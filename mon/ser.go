package mon

import (
	"bytes"
	"fmt"
	"io"
	"math/rand/v2"
	"sort"
	"strings"

	"github.com/wizenheimer/comet"
)

// ---------------------------------------------------------------------------
// the eight serialisable index kinds behind one adapter (C07, C16)
// ---------------------------------------------------------------------------

var serKindNames = []string{"flat", "hnsw", "ivf", "pq", "ivfpq", "bm25", "metadata", "hybrid"}

// serState is one reachable state of one index kind together with everything needed to build a
// matching (or deliberately mismatching) receiver and to interrogate both.
type serState struct {
	kind               string
	desc               string
	write              func(w io.Writer) (int64, error)   // serialise the source into one stream
	fresh              func() serReceiver                 // receiver with identical construction parameters
	vary               func() []serVariant                // receivers differing in exactly one parameter
	answer             func(x any) []string               // canonical complete answers of a fixed battery (source or receiver)
	source             any                                // the source index object
	mutate             func(rng *rand.Rand, x any, n int) // continuation history applied identically to source and reloaded
	countsBytes        bool                               // WriteTo returns a byte count (all but hybrid)
	pendingTextDeletes bool                               // BM25 part holds soft-deleted documents that the implicit Flush of WriteTo will purge
}

type serReceiver struct {
	obj  any
	read func(r io.Reader) (int64, error)
}

type serVariant struct {
	what string
	recv serReceiver
}

func vecReceiver(idx comet.VectorIndex) serReceiver {
	return serReceiver{obj: idx, read: idx.ReadFrom}
}

// hybridWriteAll writes the four hybrid sub-streams back to back into w (the order ReadFrom expects).
func hybridWriteAll(h comet.HybridSearchIndex, w io.Writer) (int64, error) {
	cw := &countingWriter{w: w}
	err := h.WriteTo(cw, cw, cw, cw)
	return cw.n, err
}

type countingWriter struct {
	w      io.Writer
	n      int64
	bounds []int64 // offsets after every Write call = field boundaries
}

func (c *countingWriter) Write(p []byte) (int, error) {
	n, err := c.w.Write(p)
	c.n += int64(n)
	c.bounds = append(c.bounds, c.n)
	return n, err
}

func canonVec(res []comet.VectorResult, err error) string {
	if err != nil {
		return "err"
	}
	p := make([]string, len(res))
	for i, x := range res {
		p[i] = fmt.Sprintf("%d:%.6g", x.GetId(), x.GetScore())
	}
	sort.Strings(p)
	return strings.Join(p, " ")
}

// buildSerState generates a state of the given kind. The battery of queries is fixed at build time.
func buildSerState(rng *rand.Rand, kind string, allowEmpty bool, forceShape ...int) (*serState, error) {
	metric := allMetrics[rng.IntN(3)]
	st := &serState{kind: kind, countsBytes: true}
	shape := rng.IntN(6) // 0 empty, 1 untrained (trained kinds), 2 all-removed, else populated
	if !allowEmpty && shape < 3 {
		shape = 3
	}
	if len(forceShape) > 0 {
		shape = forceShape[0]
	}
	switch kind {
	case "flat", "hnsw", "ivf", "pq", "ivfpq":
		s, vg, err := newVecSUT(rng, kind, metric, func(dim int) *vecGen { return newVecGen(rng, dim) }, []int{2, 4, 8})
		untrained := false
		if shape == 1 && (kind == "ivf" || kind == "pq" || kind == "ivfpq") {
			// a fresh, untrained index with the same parameters
			untrained = true
			switch kind {
			case "ivf":
				s.idx, err = comet.NewIVFIndex(s.dim, s.nlist, metric)
			case "pq":
				s.idx, err = comet.NewPQIndex(s.dim, metric, s.pqM, s.nbits)
			case "ivfpq":
				s.idx, err = comet.NewIVFPQIndex(s.dim, metric, s.nlist, s.pqM, s.nbits)
			}
		}
		if err != nil {
			return nil, err
		}
		if kind == "hnsw" {
			// keep inside the exact regime so that continuation histories stay comparable
			s.hEf = 2*s.hM + rng.IntN(10)
			s.idx, _ = comet.NewHNSWIndex(s.dim, metric, s.hM, s.hEf, s.hEf)
		}
		capN := 40
		if kind == "hnsw" {
			capN = 2 * s.hM
		}
		ids := newIDGen(rng)
		var live []uint32
		if !untrained && shape != 0 {
			n := 1 + rng.IntN(capN)
			for i := 0; i < n; i++ {
				id := ids.next()
				if err := s.idx.Add(*comet.NewVectorNodeWithID(id, vg.fresh())); err != nil {
					return nil, err
				}
				live = append(live, id)
			}
			nrem := rng.IntN(len(live)/2 + 1)
			if shape == 2 {
				nrem = len(live)
			}
			for i := 0; i < nrem; i++ {
				k := rng.IntN(len(live))
				s.idx.Remove(*comet.NewVectorNodeWithID(live[k], nil))
				live = append(live[:k], live[k+1:]...)
			}
			if rng.IntN(3) == 0 {
				s.idx.Flush()
			}
			if (kind == "ivf" || kind == "pq" || kind == "ivfpq") && rng.IntN(4) == 0 {
				// Train again AFTER adds (a reachable train/add history): centroids / codebooks move, stored entries stay
				nT := 40 + rng.IntN(40)
				if kind != "ivf" {
					nT += 1 << s.nbits
				}
				tr := make([]comet.VectorNode, nT)
				for i := range tr {
					tr[i] = *comet.NewVectorNodeWithID(uint32(i+1), vg.fresh())
				}
				if err := s.idx.Train(tr); err == nil {
					shape = 6 // marks "retrained after adds" in the description
				}
			}
		}
		var qs [][]float32
		for i := 0; i < 4; i++ {
			qs = append(qs, vg.query())
		}
		nodeQ := uint32(0)
		if len(live) > 0 && kind != "pq" && kind != "ivfpq" {
			nodeQ = live[rng.IntN(len(live))]
		}
		sub := append([]uint32(nil), live...)
		if len(sub) > 3 {
			sub = sub[:len(sub)/2]
		}
		st.desc = fmt.Sprintf("%s %s %s live=%d shape=%d", kind, metric, s.params, len(live), shape)
		st.source = s.idx
		st.write = func(w io.Writer) (int64, error) { return s.idx.WriteTo(w) }
		mk := func(dim int, m comet.DistanceKind, nlist, hM, efC, efS, pqM, nbits int) (comet.VectorIndex, error) {
			switch kind {
			case "flat":
				return comet.NewFlatIndex(dim, m)
			case "hnsw":
				return comet.NewHNSWIndex(dim, m, hM, efC, efS)
			case "ivf":
				return comet.NewIVFIndex(dim, nlist, m)
			case "pq":
				return comet.NewPQIndex(dim, m, pqM, nbits)
			default:
				return comet.NewIVFPQIndex(dim, m, nlist, pqM, nbits)
			}
		}
		st.fresh = func() serReceiver {
			x, err := mk(s.dim, metric, s.nlist, s.hM, s.hEf, s.hEf, s.pqM, s.nbits)
			if err != nil {
				panic(err)
			}
			return vecReceiver(x)
		}
		st.vary = func() []serVariant {
			var out []serVariant
			add := func(what string, x comet.VectorIndex, err error) {
				if err == nil {
					out = append(out, serVariant{what, vecReceiver(x)})
				}
			}
			otherMetric := allMetrics[(indexOfMetric(metric)+1)%3]
			// dimension: keep divisibility for the PQ kinds
			d2 := s.dim + 1
			if s.pqM > 0 {
				d2 = s.dim + s.pqM
			}
			x, err := mk(d2, metric, s.nlist, s.hM, s.hEf, s.hEf, s.pqM, s.nbits)
			add("dimension", x, err)
			x, err = mk(s.dim, otherMetric, s.nlist, s.hM, s.hEf, s.hEf, s.pqM, s.nbits)
			add("metric", x, err)
			switch kind {
			case "hnsw":
				x, err = mk(s.dim, metric, 0, s.hM+1, s.hEf, s.hEf, 0, 0)
				add("M", x, err)
				// a receiver built with "0 = use the default" for all three parameters HAS parameters (16 / 200 / 200): a stream
				// written with anything else does not fit it
				if dm, dc, ds := comet.DefaultHNSWConfig(); s.hM != dm || s.hEf != dc || s.hEf != ds {
					x, err = mk(s.dim, metric, 0, 0, 0, 0, 0, 0)
					add("all-parameters-defaulted-by-zero", x, err)
					x, err = mk(s.dim, metric, 0, -1, -1, -1, 0, 0)
					add("all-parameters-defaulted-by-negative", x, err)
				}
				x, err = mk(s.dim, metric, 0, s.hM, s.hEf+1, s.hEf, 0, 0)
				add("efConstruction", x, err)
				x, err = mk(s.dim, metric, 0, s.hM, s.hEf, s.hEf+1, 0, 0)
				add("efSearch", x, err)
			case "ivf":
				x, err = mk(s.dim, metric, s.nlist+1, 0, 0, 0, 0, 0)
				add("nlist", x, err)
			case "pq", "ivfpq":
				if kind == "ivfpq" {
					x, err = mk(s.dim, metric, s.nlist+1, 0, 0, 0, s.pqM, s.nbits)
					add("nlist", x, err)
				}
				nb := s.nbits + 1
				if nb > 8 {
					nb = s.nbits - 1
				}
				x, err = mk(s.dim, metric, s.nlist, 0, 0, 0, s.pqM, nb)
				add("nbits", x, err)
				for _, m2 := range []int{1, 2, 4, 8, 3} {
					if m2 != s.pqM && s.dim%m2 == 0 {
						x, err = mk(s.dim, metric, s.nlist, 0, 0, 0, m2, s.nbits)
						add("PQ-M", x, err)
						break
					}
				}
			}
			return out
		}
		st.answer = func(x any) []string {
			idx := x.(comet.VectorIndex)
			var out []string
			for i, q := range qs {
				sr := idx.NewSearch().WithQuery(cloneF32(q)).WithK(0)
				if s.nlist > 0 {
					sr = sr.WithNProbes([]int{0, 1, s.nlist, 2}[i%4])
				}
				res, err := sr.Execute()
				out = append(out, fmt.Sprintf("q%d: %s", i, canonVec(res, err)))
				res, err = idx.NewSearch().WithQuery(cloneF32(q)).WithK(2).WithNProbes(0).Execute()
				out = append(out, fmt.Sprintf("q%d k=2 scores: %s", i, scoresOnly(res, err)))
				if len(sub) > 0 {
					res, err = idx.NewSearch().WithQuery(cloneF32(q)).WithK(0).WithNProbes(0).WithDocumentIDs(sub...).Execute()
					out = append(out, fmt.Sprintf("q%d restricted: %s", i, canonVec(res, err)))
				}
			}
			if nodeQ != 0 {
				res, err := idx.NewSearch().WithNode(nodeQ).WithK(0).WithNProbes(0).Execute()
				out = append(out, fmt.Sprintf("node %d: %s", nodeQ, canonVec(res, err)))
			}
			return out
		}
		st.mutate = func(rng *rand.Rand, x any, n int) {
			idx := x.(comet.VectorIndex)
			g := newVecGen(rng, s.dim)
			if !idx.Trained() {
				// an untrained state continues by being trained (the same set for source and reloaded index: both draw
				// from equally seeded generators) and then used like any other
				nTrain := 20
				switch kind {
				case "ivf":
					nTrain += s.nlist
				case "pq":
					nTrain += 1 << s.nbits
				case "ivfpq":
					nTrain += max(s.nlist*10, 1<<s.nbits)
				}
				nodes := make([]comet.VectorNode, nTrain)
				for i := range nodes {
					nodes[i] = *comet.NewVectorNodeWithID(uint32(i+1), g.fresh())
				}
				if err := idx.Train(nodes); err != nil {
					return
				}
			}
			ig := newIDGen(rng)
			ig.min = 1 << 28
			for id := range ids.used { // never re-issue an id the state already holds (distinct ids are part of the quantifier)
				ig.used[id] = true
			}
			var mine []uint32
			cur := append([]uint32(nil), live...)
			resident := len(cur)
			for i := 0; i < n; i++ {
				switch {
				case rng.IntN(3) > 0 && resident < capN:
					id := ig.next()
					idx.Add(*comet.NewVectorNodeWithID(id, g.fresh()))
					mine = append(mine, id)
					cur = append(cur, id)
					resident++
				case len(cur) > 0 && rng.IntN(2) == 0:
					k := rng.IntN(len(cur))
					idx.Remove(*comet.NewVectorNodeWithID(cur[k], nil))
					cur = append(cur[:k], cur[k+1:]...)
				default:
					idx.Flush()
					resident = len(cur)
				}
			}
		}
	case "bm25":
		idx := comet.NewBM25SearchIndex()
		tg := newTextGen(rng)
		ids := newIDGen(rng)
		var live []uint32
		if shape != 0 {
			n := 1 + rng.IntN(30)
			for i := 0; i < n; i++ {
				id := ids.next()
				idx.Add(id, tg.doc())
				live = append(live, id)
			}
			nrem := rng.IntN(len(live)/2 + 1)
			if shape == 2 {
				nrem = len(live)
			}
			for i := 0; i < nrem; i++ {
				k := rng.IntN(len(live))
				idx.Remove(live[k])
				live = append(live[:k], live[k+1:]...)
				st.pendingTextDeletes = true
			}
			if len(live) > 0 && rng.IntN(2) == 0 {
				idx.Add(live[0], tg.doc()) // replacement
			}
			if rng.IntN(3) == 0 {
				idx.Flush()
				st.pendingTextDeletes = false
			}
		}
		var qs []string
		for i := 0; i < 5; i++ {
			qs = append(qs, tg.query())
		}
		st.desc = fmt.Sprintf("bm25 live=%d shape=%d", len(live), shape)
		st.source = idx
		st.write = func(w io.Writer) (int64, error) { return idx.WriteTo(w) }
		st.fresh = func() serReceiver {
			x := comet.NewBM25SearchIndex()
			return serReceiver{obj: x, read: x.ReadFrom}
		}
		st.vary = func() []serVariant { return nil }
		st.answer = func(x any) []string {
			ix := x.(*comet.BM25SearchIndex)
			var out []string
			for i, q := range qs {
				res, err := ix.NewSearch().WithQuery(q).WithK(0).Execute()
				p := make([]string, len(res))
				for j, r := range res {
					p[j] = fmt.Sprintf("%d:%.6g", r.Id, r.Score)
				}
				sort.Strings(p)
				out = append(out, fmt.Sprintf("t%d[%q] err=%v: %s", i, q, err != nil, strings.Join(p, " ")))
			}
			// node-id queries (the query is the stored document itself: exercises what the index keeps per document)
			for i, id := range live {
				if i >= 4 {
					break
				}
				res, err := ix.NewSearch().WithNode(id).WithK(0).Execute()
				p := make([]string, len(res))
				for j, r := range res {
					p[j] = fmt.Sprintf("%d:%.6g", r.Id, r.Score)
				}
				sort.Strings(p)
				out = append(out, fmt.Sprintf("node%d[%d] err=%v: %s", i, id, err != nil, strings.Join(p, " ")))
			}
			return out
		}
		st.mutate = func(rng *rand.Rand, x any, n int) {
			ix := x.(*comet.BM25SearchIndex)
			g := newTextGen(rng)
			ig := newIDGen(rng)
			ig.min = 1 << 28
			for id := range ids.used { // never re-issue an id the state already holds (distinct ids are part of the quantifier)
				ig.used[id] = true
			}
			cur := append([]uint32(nil), live...)
			for i := 0; i < n; i++ {
				switch {
				case rng.IntN(3) > 0:
					id := ig.next()
					ix.Add(id, g.doc())
					cur = append(cur, id)
				case len(cur) > 0 && rng.IntN(2) == 0:
					k := rng.IntN(len(cur))
					ix.Remove(cur[k])
					cur = append(cur[:k], cur[k+1:]...)
				default:
					ix.Flush()
				}
			}
		}
	case "metadata":
		idx := comet.NewRoaringMetadataIndex()
		schema := genSchema(rng)
		m := newMetaModel(schema)
		ids := newIDGen(rng)
		if shape != 0 {
			n := 1 + rng.IntN(40)
			for i := 0; i < n; i++ {
				id, md := ids.next(), genMetadata(rng, schema)
				idx.Add(*comet.NewMetadataNodeWithID(id, md))
				m.docs[id] = md
			}
			live := m.liveIDs()
			nrem := rng.IntN(len(live)/2 + 1)
			if shape == 2 {
				nrem = len(live)
			}
			// also: remove every carrier of one numeric field, so that an empty BSI must survive the round trip
			for i := 0; i < nrem; i++ {
				id := live[i]
				idx.Remove(*comet.NewMetadataNodeWithID(id, nil))
				delete(m.docs, id)
			}
			if rng.IntN(3) == 0 {
				for _, name := range schema.names {
					if schema.types[name].numeric() {
						for _, id := range m.liveIDs() {
							if _, has := m.docs[id][name]; has {
								idx.Remove(*comet.NewMetadataNodeWithID(id, nil))
								delete(m.docs, id)
							}
						}
						break
					}
				}
			}
		}
		var fs []modelFilter
		for i := 0; i < 10; i++ {
			fs = append(fs, genLeaf(rng, m, false))
		}
		for _, name := range schema.names { // one ordering filter per numeric field, whatever the data
			if schema.types[name].numeric() {
				v := genValue(rng, schema.types[name])
				fs = append(fs, modelFilter{impl: comet.Gte(name, v), desc: "gte " + name}, modelFilter{impl: comet.Ne(name, v), desc: "ne " + name})
			}
		}
		st.desc = fmt.Sprintf("metadata docs=%d shape=%d", len(m.docs), shape)
		st.source = idx
		st.write = func(w io.Writer) (int64, error) { return idx.WriteTo(w) }
		st.fresh = func() serReceiver {
			x := comet.NewRoaringMetadataIndex()
			return serReceiver{obj: x, read: x.ReadFrom}
		}
		st.vary = func() []serVariant { return nil }
		st.answer = func(x any) []string {
			ix := x.(*comet.RoaringMetadataIndex)
			var out []string
			res, err := ix.NewSearch().Execute()
			out = append(out, fmt.Sprintf("all err=%v: %v", err != nil, sortedIDs(idsOfMeta(res))))
			for i, f := range fs {
				res, err := ix.NewSearch().WithFilters(f.impl).Execute()
				out = append(out, fmt.Sprintf("f%d[%s] err=%v: %v", i, f.desc, err != nil, sortedIDs(idsOfMeta(res))))
			}
			return out
		}
		st.mutate = func(rng *rand.Rand, x any, n int) {
			ix := x.(*comet.RoaringMetadataIndex)
			ig := newIDGen(rng)
			ig.min = 1 << 28
			for id := range ids.used { // never re-issue an id the state already holds (distinct ids are part of the quantifier)
				ig.used[id] = true
			}
			cur := m.liveIDs()
			for i := 0; i < n; i++ {
				if rng.IntN(3) > 0 || len(cur) == 0 {
					id := ig.next()
					ix.Add(*comet.NewMetadataNodeWithID(id, genMetadata(rng, schema)))
					cur = append(cur, id)
				} else {
					k := rng.IntN(len(cur))
					ix.Remove(*comet.NewMetadataNodeWithID(cur[k], nil))
					cur = append(cur[:k], cur[k+1:]...)
				}
			}
		}
	case "hybrid":
		cfg := 1 + rng.IntN(7)
		hasVec, hasTxt, hasMeta := cfg&1 != 0, cfg&2 != 0, cfg&4 != 0
		if rng.IntN(2) == 0 {
			hasVec, hasTxt, hasMeta = true, true, true
		}
		dim := pickDim(rng, []int{1, 2, 3, 8})
		sut, err := newHybridSUT(hasVec, hasTxt, hasMeta, dim, metric)
		if err != nil {
			return nil, err
		}
		schema := genSchema(rng)
		h := newHybridModel(hasVec, hasTxt, hasMeta, metric, dim, schema)
		vg, tg, ids := newVecGen(rng, dim), newTextGen(rng), newIDGen(rng)
		ids.min = 1 << 24
		if shape != 0 {
			n := 1 + rng.IntN(25)
			for i := 0; i < n; i++ {
				id := ids.next()
				v, text, md := vg.fresh(), tg.doc(), genMetadata(rng, schema)
				if rng.IntN(4) == 0 {
					v = nil
				}
				if rng.IntN(4) == 0 {
					text = ""
				}
				if rng.IntN(4) == 0 || len(md) == 0 {
					md = nil
				}
				if v == nil && text == "" && md == nil {
					text = "alpha"
				}
				if err := sut.idx.AddWithID(id, cloneF32(v), text, md); err != nil {
					return nil, err
				}
				h.add(id, v, text, md)
			}
			live := sortedKeys(h.docs)
			nrem := rng.IntN(len(live)/2 + 1)
			if shape == 2 {
				nrem = len(live)
			}
			for i := 0; i < nrem; i++ {
				if hasTxt && h.txt.live[live[i]] {
					st.pendingTextDeletes = true
				}
				sut.idx.Remove(live[i])
				h.remove(live[i])
			}
			if rng.IntN(3) == 0 {
				sut.idx.Flush()
				st.pendingTextDeletes = false
			}
		}
		var qs []hybridQuery
		for i := 0; i < 6; i++ {
			q := genHybridQuery(rng, h, vg, tg)
			q.K = 1 << 20
			if q.Fusion == comet.ReciprocalRankFusion {
				q.Fusion = comet.WeightedSumFusion
			}
			qs = append(qs, q)
		}
		st.desc = fmt.Sprintf("hybrid vec=%v txt=%v meta=%v %s dim=%d docs=%d shape=%d", hasVec, hasTxt, hasMeta, metric, dim, len(h.docs), shape)
		st.source = sut.idx
		st.countsBytes = false
		st.write = func(w io.Writer) (int64, error) { return hybridWriteAll(sut.idx, w) }
		mk := func(v, t, m bool, d int, mt comet.DistanceKind) serReceiver {
			x, err := newHybridSUT(v, t, m, d, mt)
			if err != nil {
				panic(err)
			}
			return serReceiver{obj: x.idx, read: x.idx.ReadFrom}
		}
		st.fresh = func() serReceiver { return mk(hasVec, hasTxt, hasMeta, dim, metric) }
		st.vary = func() []serVariant {
			out := []serVariant{
				{"vector-index-presence", mk(!hasVec, hasTxt, hasMeta, dim, metric)},
				{"text-index-presence", mk(hasVec, !hasTxt, hasMeta, dim, metric)},
				{"metadata-index-presence", mk(hasVec, hasTxt, !hasMeta, dim, metric)},
			}
			if hasVec {
				out = append(out, serVariant{"dimension", mk(hasVec, hasTxt, hasMeta, dim+1, metric)},
					serVariant{"metric", mk(hasVec, hasTxt, hasMeta, dim, allMetrics[(indexOfMetric(metric)+1)%3])})
			}
			return out
		}
		st.answer = func(x any) []string {
			hx := x.(comet.HybridSearchIndex)
			var out []string
			for i, q := range qs {
				res, err := applyHybridQuery(hx.NewSearch(), q).Execute()
				p := make([]string, len(res))
				for j, r := range res {
					p[j] = fmt.Sprintf("%d:%.6g", r.ID, r.Score)
				}
				sort.Strings(p)
				out = append(out, fmt.Sprintf("h%d[%s] err=%v: %s", i, q, err != nil, strings.Join(p, " ")))
			}
			return out
		}
		st.mutate = func(rng *rand.Rand, x any, n int) {
			hx := x.(comet.HybridSearchIndex)
			g, t, ig := newVecGen(rng, dim), newTextGen(rng), newIDGen(rng)
			ig.min = 1 << 28
			for id := range ids.used { // never re-issue an id the state already holds (distinct ids are part of the quantifier)
				ig.used[id] = true
			}
			cur := sortedKeys(h.docs)
			for i := 0; i < n; i++ {
				switch {
				case rng.IntN(3) > 0 || len(cur) == 0:
					id := ig.next()
					hx.AddWithID(id, g.fresh(), t.doc(), genMetadata(rng, schema))
					cur = append(cur, id)
				case rng.IntN(2) == 0:
					k := rng.IntN(len(cur))
					hx.Remove(cur[k])
					cur = append(cur[:k], cur[k+1:]...)
				default:
					hx.Flush()
				}
			}
		}
	default:
		return nil, fmt.Errorf("kind %s", kind)
	}
	return st, nil
}

func indexOfMetric(m comet.DistanceKind) int {
	for i, x := range allMetrics {
		if x == m {
			return i
		}
	}
	return 0
}

func scoresOnly(res []comet.VectorResult, err error) string {
	if err != nil {
		return "err"
	}
	p := make([]string, len(res))
	for i, x := range res {
		p[i] = fmt.Sprintf("%.6g", x.GetScore())
	}
	return strings.Join(p, " ")
}

func sortedIDs(m map[uint32]bool) []uint32 { return sortedKeys(m) }

func serialise(st *serState) ([]byte, int64, []int64, error) {
	var buf bytes.Buffer
	cw := &countingWriter{w: &buf}
	n, err := st.write(cw)
	return buf.Bytes(), n, cw.bounds, err
}
