package mon

import (
	"math"
	"math/rand/v2"
	"sort"
	"strings"

	"github.com/clipperhouse/uax29/v2/words"
	"golang.org/x/text/unicode/norm"
)

// ---------------------------------------------------------------------------
// BM25 reference model, written from the C03 text
// trusted base: the UAX#29 segmenter and the NFKC tables (third-party libraries)
// ---------------------------------------------------------------------------

func refTokens(text string) []string {
	s := strings.ToLower(norm.NFKC.String(text))
	var out []string
	it := words.FromString(s)
	for it.Next() {
		out = append(out, it.Value())
	}
	return out
}

type bm25Model struct {
	docs     map[uint32][]string // resident documents (live + removed-not-flushed)
	live     map[uint32]bool
	removed  map[uint32]bool
	everSeen map[uint32]bool
}

func newBM25Model() *bm25Model {
	return &bm25Model{docs: map[uint32][]string{}, live: map[uint32]bool{}, removed: map[uint32]bool{}, everSeen: map[uint32]bool{}}
}

func (m *bm25Model) add(id uint32, text string) {
	m.docs[id] = refTokens(text)
	m.live[id] = true
	delete(m.removed, id)
	m.everSeen[id] = true
}
func (m *bm25Model) remove(id uint32) {
	if m.live[id] {
		delete(m.live, id)
		m.removed[id] = true
	}
}
func (m *bm25Model) flush() {
	for id := range m.docs {
		if !m.live[id] {
			delete(m.docs, id)
		}
	}
}
func (m *bm25Model) liveIDs() []uint32 {
	out := make([]uint32, 0, len(m.live))
	for id := range m.live {
		out = append(out, id)
	}
	sort.Slice(out, func(i, j int) bool { return out[i] < out[j] })
	return out
}

// scores returns the textbook Okapi BM25 score of every live matching document.
// perOccurrence: a token repeated in the query contributes once per occurrence (true) or once (false).
func (m *bm25Model) scores(query string, perOccurrence bool) map[uint32]float64 {
	const k1, b = 1.2, 0.75
	qt := refTokens(query)
	if !perOccurrence {
		seen := map[string]bool{}
		var d []string
		for _, t := range qt {
			if !seen[t] {
				seen[t] = true
				d = append(d, t)
			}
		}
		qt = d
	}
	out := map[uint32]float64{}
	N := float64(len(m.docs))
	if N == 0 || len(qt) == 0 {
		return out
	}
	total := 0
	for _, toks := range m.docs {
		total += len(toks)
	}
	avgdl := float64(total) / N
	for _, t := range qt {
		df := 0.0
		for _, toks := range m.docs {
			for _, x := range toks {
				if x == t {
					df++
					break
				}
			}
		}
		if df == 0 {
			continue
		}
		idf := math.Log((N-df+0.5)/(df+0.5) + 1)
		for id, toks := range m.docs {
			if !m.live[id] {
				continue
			}
			tf := 0.0
			for _, x := range toks {
				if x == t {
					tf++
				}
			}
			if tf == 0 {
				continue
			}
			dl := float64(len(toks))
			out[id] += idf * (tf * (k1 + 1)) / (tf + k1*(1-b+b*dl/avgdl))
		}
	}
	return out
}

func hasRepeatedToken(query string) bool {
	seen := map[string]bool{}
	for _, t := range refTokens(query) {
		if seen[t] {
			return true
		}
		seen[t] = true
	}
	return false
}

// ---------------------------------------------------------------------------
// text generator
// ---------------------------------------------------------------------------

var textWordPool = []string{
	"alpha", "beta", "gamma", "delta", "vector", "search", "index", "go", "a", "the", "Alpha", "BETA",
	"café", "CAFÉ", "straße", "日本語", "日本", "🚀", "naïve", "ﬁne", "fine", "①", "1", "ｆｕｌｌ", "full",
	"Å", "Å", "x-ray", "don't", "3.14", "hello,world", "...", "!?", "foo_bar", "ǅ",
	// compatibility characters WITHOUT a lower-case mapping of their own whose NFKC form has upper-case letters
	// (normalise first, lower-case second), next to their plain spellings
	"™", "tm", "№", "no", "ℌ", "h", "ᴬ", "㎒", "mhz",
	// long tokens (identifiers, hashes): 65 and 150 bytes - readers that treat short and long strings differently
	longToken65, longToken150,
	// legal Go strings that are not valid UTF-8 (bytes from a Latin-1 source, a truncated multi-byte rune)
	"caf\xff", "\xe6\x97", "zebra\xc3",
}

var (
	longToken65  = "id" + strings.Repeat("0123456789abcdef", 4)[:63]
	longToken150 = "tok" + strings.Repeat("abcdefghij0123456789", 8)[:147]
)

var textSeps = []string{" ", " ", " ", "  ", "\t", ", ", " - ", "\n", ""}

type textGen struct {
	rng   *rand.Rand
	vocab []string
}

func newTextGen(rng *rand.Rand) *textGen {
	n := 14 + rng.IntN(len(textWordPool)-13)
	perm := rng.Perm(len(textWordPool))
	g := &textGen{rng: rng}
	for i := 0; i < n && i < len(perm); i++ {
		g.vocab = append(g.vocab, textWordPool[perm[i]])
	}
	return g
}

func (g *textGen) word() string { return g.vocab[g.rng.IntN(len(g.vocab))] }

func (g *textGen) doc() string {
	switch g.rng.IntN(14) {
	case 0:
		return ""
	case 1:
		return []string{"...", " ", "\t \t", "!?!", "  ,  "}[g.rng.IntN(5)]
	}
	n := 1 + g.rng.IntN(12)
	var b strings.Builder
	var last string
	for i := 0; i < n; i++ {
		w := g.word()
		if last != "" && g.rng.IntN(5) == 0 {
			w = last // repeated token
		}
		last = w
		b.WriteString(w)
		if i+1 < n {
			b.WriteString(textSeps[g.rng.IntN(len(textSeps))])
		}
	}
	return b.String()
}

func (g *textGen) query() string {
	switch g.rng.IntN(12) {
	case 0:
		return ""
	case 1:
		return []string{" ", "...", "\t", "??"}[g.rng.IntN(4)]
	case 2:
		return "zzz-absent-term"
	case 3:
		return g.word() + " qqqabsent"
	}
	n := 1 + g.rng.IntN(4)
	parts := make([]string, n)
	for i := range parts {
		parts[i] = g.word()
	}
	sep := " "
	if g.rng.IntN(5) == 0 {
		sep = textSeps[g.rng.IntN(len(textSeps))]
	}
	return strings.Join(parts, sep)
}
