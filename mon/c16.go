package mon

import (
	"bytes"
	"encoding/binary"
	"fmt"
	"math/rand/v2"
	"sort"
	"sync/atomic"
	"time"

	"verif/internal/ev"
)

func init() { register("C16", "fault_enumeration", runC16) }

// readWithWatchdog runs one ReadFrom under recover and a generous wall-clock watchdog.
// outcome: "error" (rejected), "accepted", "panic", "hang".
func readWithWatchdog(recv serReceiver, data []byte) (outcome string, detail string) {
	type res struct {
		err error
		p   any
	}
	ch := make(chan res, 1)
	go func() {
		defer func() {
			if p := recover(); p != nil {
				ch <- res{p: p}
			}
		}()
		_, err := recv.read(bytes.NewReader(data))
		ch <- res{err: err}
	}()
	select {
	case x := <-ch:
		if x.p != nil {
			return "panic", fmt.Sprint(x.p)
		}
		if x.err != nil {
			return "error", x.err.Error()
		}
		return "accepted", ""
	case <-time.After(60 * time.Second):
		return "hang", "no return within 60 s"
	}
}

func runC16(r *ev.Run) {
	r.Level = "fault_enumeration"
	r.Rule = "case = one serialised state of one of the 8 index kinds (built as in C07; streams of a few hundred bytes to tens of KB). Truncation: EVERY strict prefix 0..len-1 is read into a fresh receiver when len <= 8 KiB, " +
		"otherwise every field boundary (recorded by a counting writer during WriteTo) +-1 and a stratified sample; each must be rejected with an error (no panic, no hang, no success). " +
		"Mismatch: the stream is read by a receiver of every other kind, by receivers differing in exactly one construction parameter (dimension, metric, M, efConstruction, efSearch, nlist, PQ M, nbits, each sub-index presence) and with the version word patched; each must be rejected. " +
		"Segment clause: see stream 'segments'. non-trivial = stream has >= 64 bytes and >= 1 stored document; distinct by (kind, state digest)"
	r.Assumptions = []string{"a prefix is cut from a stream the implementation itself produced (hostile length fields are outside the property)", "watchdog of 60 s per ReadFrom: firing counts as a hang"}
	n := r.Pick(96, 1600)
	var notExhaustive atomic.Bool
	r.CasesParallel("stream", n, 16, func(ci int, rng *rand.Rand) {
		kind := serKindNames[ci%len(serKindNames)]
		var st *serState
		var err error
		if trainedKind := kind == "ivf" || kind == "pq" || kind == "ivfpq"; trainedKind && (ci/len(serKindNames))%4 == 1 {
			// an untrained index is a legal (empty) state too: its stream carries the parameters but no centroids / codebooks
			st, err = buildSerState(rng, kind, true, 1)
			r.Count("streams:untrained-"+kind, 1)
		} else if round := ci / len(serKindNames); round%6 == 2 {
			// the empty (never used) and the all-removed state of EVERY kind: their streams are valid too, and every
			// strict prefix / mismatched receiver of them is rejected like any other
			st, err = buildSerState(rng, kind, true, []int{0, 2}[(round/6)%2])
			r.Count("streams:empty-or-all-removed-"+kind, 1)
		} else {
			st, err = buildSerState(rng, kind, ci%5 == 0)
		}
		if err != nil {
			r.ViolationAt("stream", ci, "c16.setup", fmt.Sprintf("%s: %v", kind, err), nil)
			return
		}
		data, _, bounds, err := serialise(st)
		if err != nil {
			r.ViolationAt("stream", ci, "c16.write-error", st.desc+": "+err.Error(), nil)
			return
		}
		rep := func(sig, what string, extra map[string]any) {
			w := map[string]any{"kind": kind, "state": st.desc, "stream_len": len(data)}
			for k, v := range extra {
				w[k] = v
			}
			r.ViolationAt("stream", ci, sig, st.desc+": "+what, w)
		}
		// sanity: the full stream must load (otherwise the prefixes prove nothing)
		if out, d := readWithWatchdog(st.fresh(), data); out != "accepted" {
			rep("c16."+kind+".valid-stream-rejected", "the complete stream was not accepted: "+out+" "+d, nil)
			return
		}
		// ---- truncation ----
		var cuts []int
		if len(data) <= 8192 {
			for i := 0; i < len(data); i++ {
				cuts = append(cuts, i)
			}
		} else {
			notExhaustive.Store(true)
			set := map[int]bool{0: true, len(data) - 1: true}
			for _, b := range bounds {
				for _, d := range []int64{-1, 0, 1} {
					if x := int(b + d); x >= 0 && x < len(data) {
						set[x] = true
					}
				}
			}
			for i := 0; i < 2000; i++ {
				set[rng.IntN(len(data))] = true
			}
			for x := range set {
				cuts = append(cuts, x)
			}
			sort.Ints(cuts)
		}
		for _, c := range cuts {
			out, d := readWithWatchdog(st.fresh(), data[:c])
			if out != "error" {
				rep(fmt.Sprintf("c16.%s.prefix-%s", kind, out), fmt.Sprintf("prefix of %d of %d bytes: %s %s", c, len(data), out, d), map[string]any{"prefix_len": c})
				if out == "hang" {
					return
				}
			}
		}
		r.Count("prefixes-read:"+kind, int64(len(cuts)))
		// ---- mismatch: other kinds ----
		for _, other := range serKindNames {
			if other == kind {
				continue
			}
			os, err := buildSerState(r.Rng("other", ci), other, false)
			if err != nil {
				continue
			}
			if out, d := readWithWatchdog(os.fresh(), data); out != "error" {
				rep(fmt.Sprintf("c16.%s-stream-into-%s.%s", kind, other, out), fmt.Sprintf("a %s stream read by a %s receiver: %s %s", kind, other, out, d), nil)
			}
			r.Count("mismatch:other-kind", 1)
		}
		// ---- mismatch: exactly one construction parameter ----
		for _, v := range st.vary() {
			if out, d := readWithWatchdog(v.recv, data); out != "error" {
				rep(fmt.Sprintf("c16.%s.param-%s.%s", kind, v.what, out), fmt.Sprintf("receiver differing only in %s: %s %s", v.what, out, d), nil)
			}
			r.Count("mismatch:one-parameter:"+v.what, 1)
		}
		// ---- mismatch: version word ----
		if len(data) >= 8 {
			cur := binary.LittleEndian.Uint32(data[4:8])
			// every "other format version": neighbours, 0, the extremes, a byte-swapped and a sign-bit variant
			for _, v := range []uint32{cur + 1, cur - 1, 0, 2, 255, 256, cur << 24, cur | 1<<31, 1<<32 - 1} {
				if v == cur {
					continue
				}
				patched := append([]byte(nil), data...)
				binary.LittleEndian.PutUint32(patched[4:8], v)
				if out, d := readWithWatchdog(st.fresh(), patched); out != "error" {
					rep(fmt.Sprintf("c16.%s.version.%s", kind, out), fmt.Sprintf("stream whose version word %d was replaced by %d: %s %s", cur, v, out, d), nil)
				}
				r.Count("mismatch:version", 1)
			}
		}
		if r.WantSample() && ci%24 < 8 && ci%5 == 1 {
			r.Sample(map[string]any{"kind": kind, "state": st.desc, "stream_len": len(data), "prefixes": len(cuts), "field_boundaries": len(bounds)})
		}
		r.Count("streams:"+kind, 1)
		r.Eval(len(data) >= 64 && st.desc != "" && !bytes.Contains([]byte(st.desc), []byte("live=0")) && !bytes.Contains([]byte(st.desc), []byte("docs=0")), ev.Digest(kind, st.desc, len(data), ci))
	})
	runC16Segments(r)
	r.Exhaustive = !notExhaustive.Load() // every offset of every stream of every case was tried
}
