package mon

import (
	"fmt"
	"math/rand/v2"
	"sort"
	"strings"

	"github.com/wizenheimer/comet"

	"verif/internal/ev"
)

func init() { register("C06", "exploration", runC06) }

// batterySnapshot records the complete answers of a fixed battery of queries through the hybrid index and
// through each sub-index directly, canonicalised (sorted id:score) so that two snapshots can be compared.
func batterySnapshot(sut *hybridSUT, qs []hybridQuery, vqs [][]float32, tqs []string, mfs [][]comet.Filter) []string {
	var out []string
	canon := func(name string, pairs []string, err error) {
		sort.Strings(pairs)
		out = append(out, fmt.Sprintf("%s => err=%v %s", name, err != nil, strings.Join(pairs, " ")))
	}
	for i, q := range qs {
		res, err := applyHybridQuery(sut.idx.NewSearch(), q).Execute()
		var p []string
		for _, x := range res {
			p = append(p, fmt.Sprintf("%d:%.6g", x.ID, x.Score))
		}
		canon(fmt.Sprintf("hybrid#%d[%s]", i, q), p, err)
	}
	if sut.flat != nil {
		for i, q := range vqs {
			res, err := sut.flat.NewSearch().WithQuery(cloneF32(q)).WithK(0).Execute()
			var p []string
			for _, x := range res {
				p = append(p, fmt.Sprintf("%d:%.6g", x.GetId(), x.GetScore()))
			}
			canon(fmt.Sprintf("vector#%d", i), p, err)
		}
	}
	if sut.bm != nil {
		for i, q := range tqs {
			res, err := sut.bm.NewSearch().WithQuery(q).WithK(0).Execute()
			var p []string
			for _, x := range res {
				p = append(p, fmt.Sprintf("%d:%.6g", x.Id, x.Score))
			}
			canon(fmt.Sprintf("text#%d[%q]", i, q), p, err)
		}
	}
	if sut.meta != nil {
		for i, f := range mfs {
			res, err := sut.meta.NewSearch().WithFilters(f...).Execute()
			var p []string
			for _, x := range res {
				p = append(p, fmt.Sprint(x.GetId()))
			}
			canon(fmt.Sprintf("meta#%d", i), p, err)
		}
	}
	return out
}

func runC06(r *ev.Run) {
	r.Rule = "stream 'hybrid': case = hybrid index (flat + BM25 + metadata, any subset) under a generated history over Add / AddWithID / failing adds (wrong dimension, zero vector under cosine, unsupported metadata value types, failing in the 1st or 3rd sub-index) / Remove / Remove of unknown or removed ids / Flush / re-add of a removed id with a flush before, between or after; " +
		"after every op the hybrid index AND each sub-index searched directly are compared with the model (vector listing, BM25 scores, metadata sets incl. empty filter and ne/not_in), and around every failing op a fixed battery of complete answers must be identical before and after. " +
		"stream 'kinds': the update clause (remove + re-add = only the new content, before and after Flush) on each of flat/hnsw/ivf/pq/ivfpq, BM25 and the metadata index used alone. " +
		"non-trivial = history contains a failing add with earlier valid parts, a removal and a re-add of a removed id; distinct by (config, history digest)"
	r.Assumptions = []string{"reference = hybrid model of C05 (flat => exact)", "HNSW is kept inside its exact regime (<=2M resident) in the per-kind stream so that 'findable' is sharp"}
	n := r.Pick(300, 6000)
	r.CasesParallel("hybrid", n, 16, func(ci int, rng *rand.Rand) {
		cfg := 1 + ci%7
		hasVec, hasTxt, hasMeta := cfg&1 != 0, cfg&2 != 0, cfg&4 != 0
		if ci%3 == 0 {
			hasVec, hasTxt, hasMeta = true, true, true
		}
		metric := allMetrics[rng.IntN(3)]
		dim := pickDim(rng, []int{1, 2, 3, 8})
		sut, err := newHybridSUT(hasVec, hasTxt, hasMeta, dim, metric)
		if err != nil {
			r.ViolationAt("hybrid", ci, "hybrid.setup", err.Error(), nil)
			return
		}
		schema := genSchema(rng)
		h := newHybridModel(hasVec, hasTxt, hasMeta, metric, dim, schema)
		ids := newIDGen(rng)
		ids.min = 1 << 24
		autoIDs := map[uint32]bool{}
		vg := newVecGen(rng, dim)
		tg := newTextGen(rng)
		var hist []hybridOp
		cfgS := fmt.Sprintf("vec=%v txt=%v meta=%v %s dim=%d", hasVec, hasTxt, hasMeta, metric, dim)
		dead := false // after the first divergence of a case everything later is noise: stop the case
		rep := func(sig, what string) {
			if dead {
				return
			}
			dead = true
			hh := hist
			if len(hh) > 30 {
				hh = hh[len(hh)-30:]
			}
			r.ViolationAt("hybrid", ci, sig, cfgS+" "+what, map[string]any{"config": cfgS, "schema": fmt.Sprint(schema.types), "history_tail": hh})
		}
		var removedIDs []uint32
		failingWithParts, removals, readds := 0, 0, 0
		type docContent struct {
			v    []float32
			text string
			md   map[string]any
		}
		content := map[uint32]docContent{} // what each id carried when it was last added
		genDoc := func() ([]float32, string, map[string]any) {
			var v []float32
			var text string
			var md map[string]any
			for len(v) == 0 && text == "" && len(md) == 0 {
				v, md = nil, nil
				if rng.IntN(4) > 0 {
					v = vg.fresh()
				}
				if rng.IntN(4) > 0 {
					text = tg.doc()
				}
				if rng.IntN(4) > 0 {
					md = genMetadata(rng, schema)
					if len(md) == 0 {
						md = nil
					}
				}
			}
			// "no embedding" / "no metadata" also come as EMPTY, non-nil values
			if v == nil && rng.IntN(3) == 0 {
				v = []float32{}
				r.Count("ops:doc-with-empty-non-nil-vector", 1)
			}
			if md == nil && rng.IntN(3) == 0 {
				md = map[string]any{}
				r.Count("ops:doc-with-empty-non-nil-metadata", 1)
			}
			return v, text, md
		}
		// direct checks of each modality against the model
		checkAll := func(tag string) {
			if sut.flat != nil {
				q := vg.query()
				res, err := sut.flat.NewSearch().WithQuery(cloneF32(q)).WithK(0).Execute()
				if err != nil {
					rep("c06.vector.search-error", err.Error())
				} else {
					checkListing(func(sig, what string) { rep(sig, tag+": "+what) }, "c06.vector", toListing(res), h.vec.live, h.vec.live, func(id uint32) (float64, float64) {
						d := trueDist(metric, q, h.vec.raw[id])
						return d, distTol(metric, dim, d)
					}, nil)
				}
			}
			if sut.bm != nil {
				for t := 0; t < 2; t++ {
					q := tg.query()
					res, err := sut.bm.NewSearch().WithQuery(q).WithK(0).Execute()
					if err != nil {
						rep("c06.text.search-error", err.Error())
						continue
					}
					exp := h.txt.scores(q, true)
					if hasRepeatedToken(q) {
						if checkTextAnswer(nil, "", res, exp, 0, nil, nil) || checkTextAnswer(nil, "", res, h.txt.scores(q, false), 0, nil, nil) {
							continue
						}
					}
					checkTextAnswer(func(sig, what string) { rep(sig, fmt.Sprintf("%s: query %q: %s", tag, q, what)) }, "c06.text", res, exp, 0, nil, nil)
				}
			}
			if sut.meta != nil {
				res, err := sut.meta.NewSearch().Execute()
				want := map[uint32]bool{}
				for id := range h.meta.docs {
					want[id] = true
				}
				if err != nil {
					rep("c06.meta.search-error", err.Error())
				} else if got := idsOfMeta(res); !sameSet(got, want) {
					rep("c06.meta.all-docs", tag+": empty-filter metadata search: "+setDiff(got, want))
				}
				for t := 0; t < 2; t++ {
					f := genLeaf(rng, h.meta, false)
					alts, sharp := metaExpect(h.meta, [][]modelFilter{{f}}, h.seenFields)
					res, err := sut.meta.NewSearch().WithFilters(f.impl).Execute()
					if !sharp {
						continue
					}
					if err != nil {
						rep("c06.meta.search-error", fmt.Sprintf("%s: [%s]: %v", tag, f.desc, err))
					} else if got := idsOfMeta(res); !sameSet(got, alts[0]) {
						rep("c06.meta.filter", fmt.Sprintf("%s: [%s]: %s", tag, f.desc, setDiff(got, alts[0])))
					}
				}
			}
			for t := 0; t < 3; t++ {
				q := genHybridQuery(rng, h, vg, tg)
				got, err := applyHybridQuery(sut.idx.NewSearch(), q).Execute()
				checkHybridAnswer(func(sig, what string) { rep("c06."+sig, tag+": "+what) }, r, h, q, got, err)
			}
			r.Count("full-probe-sets", 1)
		}
		fixedBattery := func() ([]hybridQuery, [][]float32, []string, [][]comet.Filter) {
			var qs []hybridQuery
			for i := 0; i < 3; i++ {
				// The before/after comparison needs answers that do not depend on map-order tie-breaking:
				// k beyond the corpus (no top-k boundary) and no rank-based fusion (tied scores => arbitrary ranks).
				q := genHybridQuery(rng, h, vg, tg)
				q.K = 1 << 20
				if q.Fusion == comet.ReciprocalRankFusion {
					q.Fusion = comet.WeightedSumFusion
				}
				qs = append(qs, q)
			}
			vqs := [][]float32{vg.query(), vg.query()}
			tqs := []string{tg.query(), tg.word()}
			mfs := [][]comet.Filter{nil}
			for i := 0; i < 3; i++ {
				mfs = append(mfs, []comet.Filter{genLeaf(rng, h.meta, false).impl})
			}
			return qs, vqs, tqs, mfs
		}
		noEffect := func(what string, op func() error, mustFail bool) {
			qs, vqs, tqs, mfs := fixedBattery()
			before := batterySnapshot(sut, qs, vqs, tqs, mfs)
			err := op()
			if mustFail && err == nil {
				rep("c06.invalid-op-succeeds", what+" returned no error")
				return
			}
			if err == nil {
				return
			}
			after := batterySnapshot(sut, qs, vqs, tqs, mfs)
			for i := range before {
				if before[i] != after[i] {
					mod := strings.SplitN(before[i], "#", 2)[0]
					rep("c06.failed-op-changed-"+mod, fmt.Sprintf("%s failed (%v) but an answer changed:\n   before: %s\n   after:  %s", what, err, before[i], after[i]))
					break
				}
			}
			r.Count("failed-ops-with-battery-compared", 1)
		}
		nOps := 12 + rng.IntN(50)
		for op := 0; op < nOps; op++ {
			c := rng.IntN(20)
			switch {
			case c < 7 || len(h.docs) == 0: // valid add
				v, text, md := genDoc()
				var id uint32
				var err error
				if rng.IntN(3) == 0 {
					id, err = sut.idx.Add(cloneF32(v), text, md)
					if err == nil && (autoIDs[id] || id == 0) {
						rep("c06.auto-id-repeated", fmt.Sprintf("Add returned id %d a second time", id))
					}
					autoIDs[id] = true
				} else {
					id = ids.next()
					err = sut.idx.AddWithID(id, cloneF32(v), text, md)
				}
				hist = append(hist, hybridOp{"add", id, cloneF32(v), text, md})
				if err != nil {
					rep("c06.add-error", fmt.Sprintf("valid add failed: %v", err))
					return
				}
				h.add(id, v, text, md)
				content[id] = docContent{cloneF32(v), text, md}
				r.Count("ops:add", 1)
			case c < 10: // failing add
				v, text, md := genDoc()
				kind := ""
				choices := []string{}
				if hasVec {
					choices = append(choices, "wrong-dimension")
					if metric == comet.Cosine {
						choices = append(choices, "zero-vector")
					}
				}
				if hasMeta {
					choices = append(choices, "bad-metadata-type")
				}
				if len(choices) == 0 {
					continue
				}
				kind = choices[rng.IntN(len(choices))]
				switch kind {
				case "wrong-dimension":
					v = make([]float32, dim+1+rng.IntN(2))
					for i := range v {
						v[i] = 1
					}
				case "zero-vector":
					v = make([]float32, dim)
				case "bad-metadata-type":
					if md == nil {
						md = map[string]any{}
					}
					bad := []any{[]int{1, 2}, map[string]any{"x": 1}, float32(1.5), uint8(3), nil, struct{}{}}[rng.IntN(6)]
					md["zz_bad"+fmt.Sprint(rng.IntN(3))] = bad
					if rng.IntN(2) == 0 {
						md["aa_good"] = "x"
					}
					if (hasVec && v != nil) || (hasTxt && text != "") {
						failingWithParts++
					}
				}
				// the refused document names a fresh id, a LIVE id (an update that is refused: the old document stays, and
				// can still be removed) or an id that was removed earlier (it stays unknown: Remove keeps failing)
				id := ids.next()
				target := "fresh"
				switch rng.IntN(3) {
				case 1:
					if live := sortedKeys(h.docs); len(live) > 0 {
						id, target = live[rng.IntN(len(live))], "live"
					}
				case 2:
					for _, rid := range removedIDs {
						if !h.docs[rid] {
							id, target = rid, "removed"
							break
						}
					}
				}
				useAuto := target == "fresh" && rng.IntN(3) == 0
				hist = append(hist, hybridOp{"failing-add:" + kind + ":" + target, id, cloneF32(v), text, map[string]any{"n_fields": len(md)}})
				noEffect("Add with "+kind+" on a "+target+" id", func() error {
					if useAuto {
						_, err := sut.idx.Add(cloneF32(v), text, md)
						return err
					}
					return sut.idx.AddWithID(id, cloneF32(v), text, md)
				}, true)
				r.Count("ops:failing-add:"+kind, 1)
				r.Count("ops:failing-add-on-"+target+"-id", 1)
				if dead || useAuto || rng.IntN(2) == 0 {
					break
				}
				if target == "live" {
					// the refused update left the old document in place: removing it works and really removes it
					hist = append(hist, hybridOp{Op: "remove-after-refused-update", ID: id})
					if err := sut.idx.Remove(id); err != nil {
						rep("c06.remove-error", fmt.Sprintf("Remove(%d) of a live document (after a refused AddWithID on it): %v", id, err))
					}
					h.remove(id)
					removedIDs = append(removedIDs, id)
					removals++
				} else {
					hist = append(hist, hybridOp{Op: "remove-after-refused-add", ID: id})
					noEffect(fmt.Sprintf("Remove(%d) of an id whose only/last add was refused", id), func() error { return sut.idx.Remove(id) }, true)
				}
				r.Count("ops:remove-after-refused-add-on-"+target+"-id", 1)
			case c < 14: // remove
				live := sortedKeys(h.docs)
				id := live[rng.IntN(len(live))]
				hist = append(hist, hybridOp{Op: "remove", ID: id})
				if err := sut.idx.Remove(id); err != nil {
					rep("c06.remove-error", fmt.Sprintf("Remove(%d) of a live document: %v", id, err))
				}
				h.remove(id)
				removedIDs = append(removedIDs, id)
				removals++
				r.Count("ops:remove", 1)
			case c < 16: // remove of unknown / already removed id: must fail without effect
				id := ids.absent()
				what := "unknown"
				if len(removedIDs) > 0 && rng.IntN(2) == 0 {
					id, what = removedIDs[rng.IntN(len(removedIDs))], "already-removed"
					if h.docs[id] {
						continue
					}
				}
				hist = append(hist, hybridOp{Op: "remove-" + what, ID: id})
				noEffect(fmt.Sprintf("Remove(%d) of an %s id", id, what), func() error { return sut.idx.Remove(id) }, true)
				r.Count("ops:remove-"+what, 1)
			case c < 18: // flush
				hist = append(hist, hybridOp{Op: "flush"})
				if err := sut.idx.Flush(); err != nil {
					rep("c06.flush-error", err.Error())
				}
				h.flush()
				r.Count("ops:flush", 1)
			default: // re-add a removed id with new content (update = remove + add)
				var cands []uint32
				for _, id := range removedIDs {
					if !h.docs[id] {
						cands = append(cands, id)
					}
				}
				if len(cands) == 0 {
					continue
				}
				id := cands[rng.IntN(len(cands))]
				v, text, md := genDoc()
				// the everyday update changes only part of a document: each part is, one time in three, exactly
				// what the id carried before its removal (same text / same vector / same metadata)
				if old, ok := content[id]; ok {
					if rng.IntN(3) == 0 {
						text = old.text
						r.Count("ops:re-add-with-unchanged-text", 1)
					}
					if rng.IntN(3) == 0 && old.v != nil {
						v = cloneF32(old.v)
						r.Count("ops:re-add-with-unchanged-vector", 1)
					}
					if rng.IntN(3) == 0 {
						md = old.md
						r.Count("ops:re-add-with-unchanged-metadata", 1)
					}
				}
				hist = append(hist, hybridOp{"re-add", id, cloneF32(v), text, md})
				if err := sut.idx.AddWithID(id, cloneF32(v), text, md); err != nil {
					rep("c06.readd-error", fmt.Sprintf("re-adding removed id %d failed: %v", id, err))
					return
				}
				h.add(id, v, text, md)
				content[id] = docContent{cloneF32(v), text, md}
				readds++
				r.Count("ops:re-add-removed-id", 1)
			}
			checkAll(hist[len(hist)-1].Op)
			if dead {
				break
			}
		}
		if r.WantSample() && ci%70 == 3 {
			hh := hist
			if len(hh) > 6 {
				hh = hh[:6]
			}
			r.Sample(map[string]any{"stream": "hybrid", "config": cfgS, "history_head": hh})
		}
		r.Eval(failingWithParts > 0 && removals > 0 && readds > 0, ev.Digest("hybrid", cfgS, len(hist), ci))
	})

	// ------------------------------------------------------------------ per-index update clause
	nk := r.Pick(210, 4200)
	kinds := []string{"flat", "hnsw", "ivf", "pq", "ivfpq", "bm25", "metadata"}
	r.CasesParallel("kinds", nk, 16, func(ci int, rng *rand.Rand) {
		kind := kinds[ci%len(kinds)]
		metric := allMetrics[rng.IntN(3)]
		var hist []string
		dead := false
		rep := func(sig, what string) {
			if dead {
				return
			}
			dead = true
			hh := hist
			if len(hh) > 40 {
				hh = hh[len(hh)-40:]
			}
			r.ViolationAt("kinds", ci, sig, fmt.Sprintf("%s %s: %s", kind, metric, what), map[string]any{"kind": kind, "metric": metric, "history_tail": hh})
		}
		ids := newIDGen(rng)
		readds := 0
		lastText := map[uint32]string{}
		lastVec := map[uint32][]float32{}
		switch kind {
		case "bm25":
			idx := comet.NewBM25SearchIndex()
			m := newBM25Model()
			tg := newTextGen(rng)
			var removed []uint32
			check := func(tag string) {
				for t := 0; t < 3; t++ {
					q := tg.query()
					res, err := idx.NewSearch().WithQuery(q).WithK(0).Execute()
					if err != nil {
						rep("c06.bm25.search-error", err.Error())
						continue
					}
					exp := m.scores(q, true)
					if hasRepeatedToken(q) && (checkTextAnswer(nil, "", res, exp, 0, nil, nil) || checkTextAnswer(nil, "", res, m.scores(q, false), 0, nil, nil)) {
						continue
					}
					checkTextAnswer(func(sig, what string) { rep(sig, fmt.Sprintf("%s: query %q: %s", tag, q, what)) }, "c06.bm25", res, exp, 0, nil, nil)
				}
			}
			for op := 0; op < 10+rng.IntN(40); op++ {
				c := rng.IntN(10)
				switch {
				case c < 4 || len(m.live) == 0:
					id, text := ids.next(), tg.doc()
					hist = append(hist, fmt.Sprintf("add %d %q", id, text))
					idx.Add(id, text)
					m.add(id, text)
					lastText[id] = text
				case c < 6:
					live := m.liveIDs()
					id := live[rng.IntN(len(live))]
					hist = append(hist, fmt.Sprintf("remove %d", id))
					idx.Remove(id)
					m.remove(id)
					removed = append(removed, id)
				case c < 8:
					hist = append(hist, "flush")
					idx.Flush()
					m.flush()
				default:
					var cands []uint32
					for _, id := range removed {
						if !m.live[id] {
							cands = append(cands, id)
						}
					}
					if len(cands) == 0 {
						continue
					}
					id, text := cands[rng.IntN(len(cands))], tg.doc()
					if old, ok := lastText[id]; ok && rng.IntN(3) == 0 {
						text = old // the same text again (only something else about the document changed)
						r.Count("kinds:bm25-re-add-with-unchanged-text", 1)
					}
					hist = append(hist, fmt.Sprintf("re-add %d %q", id, text))
					if err := idx.Add(id, text); err != nil {
						rep("c06.bm25.readd-error", err.Error())
					}
					// a removed id that comes back is a fresh document: the old text leaves the statistics
					if _, stillResident := m.docs[id]; stillResident {
						delete(m.docs, id)
					}
					m.add(id, text)
					lastText[id] = text
					readds++
				}
				check(hist[len(hist)-1])
				if dead {
					break
				}
			}
		case "metadata":
			idx := comet.NewRoaringMetadataIndex()
			schema := genSchema(rng)
			m := newMetaModel(schema)
			seen := map[string]bool{}
			var removed []uint32
			for op := 0; op < 10+rng.IntN(40) && !dead; op++ {
				c := rng.IntN(10)
				switch {
				case c < 5 || len(m.docs) == 0 || (c >= 8 && len(removed) == 0):
					id, md := ids.next(), genMetadata(rng, schema)
					hist = append(hist, fmt.Sprintf("add %d %v", id, md))
					if err := idx.Add(*comet.NewMetadataNodeWithID(id, md)); err != nil {
						rep("c06.meta.add-error", err.Error())
					}
					m.docs[id] = md
					for k := range md {
						seen[k] = true
					}
				case c < 8:
					live := m.liveIDs()
					id := live[rng.IntN(len(live))]
					hist = append(hist, fmt.Sprintf("remove %d", id))
					idx.Remove(*comet.NewMetadataNodeWithID(id, nil))
					delete(m.docs, id)
					removed = append(removed, id)
				default:
					id := removed[rng.IntN(len(removed))]
					if _, live := m.docs[id]; live {
						continue
					}
					md := genMetadata(rng, schema)
					hist = append(hist, fmt.Sprintf("re-add %d %v", id, md))
					if err := idx.Add(*comet.NewMetadataNodeWithID(id, md)); err != nil {
						rep("c06.meta.readd-error", err.Error())
					}
					m.docs[id] = md
					for k := range md {
						seen[k] = true
					}
					readds++
				}
				for t := 0; t < 4; t++ {
					f := genLeaf(rng, m, false)
					alts, sharp := metaExpect(m, [][]modelFilter{{f}}, seen)
					res, err := idx.NewSearch().WithFilters(f.impl).Execute()
					if !sharp {
						continue
					}
					if err != nil {
						rep("c06.meta.search-error", fmt.Sprintf("[%s]: %v", f.desc, err))
					} else if got := idsOfMeta(res); !sameSet(got, alts[0]) {
						rep("c06.meta.filter-after-update", fmt.Sprintf("after %s: [%s]: %s", hist[len(hist)-1], f.desc, setDiff(got, alts[0])))
					}
				}
				// a failing Add (unsupported value type) must leave the index unchanged
				if rng.IntN(4) == 0 {
					id := ids.next()
					md := genMetadata(rng, schema)
					md["zz_bad"] = []int{1}
					before, _ := idx.NewSearch().Execute()
					err := idx.Add(*comet.NewMetadataNodeWithID(id, md))
					after, _ := idx.NewSearch().Execute()
					hist = append(hist, fmt.Sprintf("failing-add %d", id))
					if err == nil {
						rep("c06.meta.invalid-op-succeeds", "Add with an unsupported value type returned no error")
					} else if !sameSet(idsOfMeta(before), idsOfMeta(after)) {
						rep("c06.failed-op-changed-meta", fmt.Sprintf("metadata Add(%d) failed (%v) but the empty-filter answer changed: %s", id, err, setDiff(idsOfMeta(after), idsOfMeta(before))))
					}
					for k, v := range md {
						if k == "zz_bad" {
							continue
						}
						f := comet.Eq(k, v)
						if res, err := idx.NewSearch().WithFilters(f).Execute(); err == nil && idsOfMeta(res)[id] {
							rep("c06.failed-op-changed-meta", fmt.Sprintf("metadata Add(%d) failed but Eq(%s,%v) now returns it", id, k, v))
						}
					}
				}
			}
		default:
			s, vg, err := newVecSUT(rng, kind, metric, func(dim int) *vecGen { return newVecGen(rng, dim) }, []int{2, 4, 8})
			if err != nil {
				rep("c06."+kind+".setup", err.Error())
				return
			}
			if kind == "hnsw" {
				// exact regime: ef >= 2M is needed for "findable" to be sharp
				s.hEf = 2*s.hM + rng.IntN(20)
				s.idx, _ = comet.NewHNSWIndex(s.dim, metric, s.hM, s.hEf, s.hEf)
			}
			m := newVecModel(metric, s.dim)
			capN := 40
			if kind == "hnsw" {
				capN = 2 * s.hM
			}
			var removed []uint32
			check := func(tag string) {
				for t := 0; t < 2; t++ {
					q := vg.query()
					o := vecProbeOpts{NProbes: 0}
					res, err := s.search(o).WithQuery(cloneF32(q)).WithK(0).Execute()
					if err != nil {
						rep("c06."+kind+".search-error", err.Error())
						continue
					}
					e, err := s.expect(q, m, 0)
					if err != nil {
						continue
					}
					if kind == "hnsw" {
						e.universes = []map[uint32]bool{m.live}
					}
					checkListingAlts(func(sig, what string) { rep(sig, tag+": "+what) }, "c06."+kind, toListing(res), m.live, e)
				}
			}
			for op := 0; op < 10+rng.IntN(40); op++ {
				c := rng.IntN(10)
				switch {
				case (c < 4 || len(m.live) == 0) && len(m.resident) < capN:
					id, v := ids.next(), vg.fresh()
					hist = append(hist, fmt.Sprintf("add %d", id))
					if err := s.idx.Add(*comet.NewVectorNodeWithID(id, cloneF32(v))); err != nil {
						rep("c06."+kind+".add-error", err.Error())
						return
					}
					m.add(id, v)
					lastVec[id] = cloneF32(v)
				case c < 6 && len(m.live) > 0:
					live := m.liveIDs()
					id := live[rng.IntN(len(live))]
					hist = append(hist, fmt.Sprintf("remove %d", id))
					if err := s.idx.Remove(*comet.NewVectorNodeWithID(id, nil)); err != nil {
						rep("c06."+kind+".remove-error", err.Error())
					}
					m.remove(id)
					removed = append(removed, id)
					// removing it again must fail
					if err := s.idx.Remove(*comet.NewVectorNodeWithID(id, nil)); err == nil {
						rep("c06."+kind+".double-remove-succeeds", fmt.Sprintf("second Remove(%d) returned nil", id))
					}
				case c < 8 || len(m.resident) >= capN:
					hist = append(hist, "flush")
					s.idx.Flush()
					m.flush()
					if len(m.resident) >= capN && len(m.live) > 0 {
						live := m.liveIDs()
						id := live[0]
						s.idx.Remove(*comet.NewVectorNodeWithID(id, nil))
						m.remove(id)
						removed = append(removed, id)
						s.idx.Flush()
						m.flush()
						hist = append(hist, fmt.Sprintf("remove %d", id), "flush")
					}
				default:
					var cands []uint32
					for _, id := range removed {
						if !m.live[id] {
							cands = append(cands, id)
						}
					}
					if len(cands) == 0 || len(m.resident) >= capN {
						continue
					}
					id, v := cands[rng.IntN(len(cands))], vg.fresh()
					if old, ok := lastVec[id]; ok && rng.IntN(3) == 0 {
						v = cloneF32(old) // the same vector again
						r.Count("kinds:re-add-with-unchanged-vector", 1)
					}
					pend := m.resident[id]
					hist = append(hist, fmt.Sprintf("re-add %d (tombstone pending=%v)", id, pend))
					if err := s.idx.Add(*comet.NewVectorNodeWithID(id, cloneF32(v))); err != nil {
						rep("c06."+kind+".readd-error", fmt.Sprintf("re-adding removed id %d: %v", id, err))
						return
					}
					m.add(id, v)
					lastVec[id] = cloneF32(v)
					readds++
				}
				check(hist[len(hist)-1])
				if dead {
					break
				}
			}
		}
		r.Count("kinds:"+kind, 1)
		r.Count("kinds:re-adds", int64(readds))
		r.Eval(readds > 0, ev.Digest("kinds", kind, metric, len(hist), ci))
	})
}
