package mon

import (
	"fmt"
	"math"
	"math/rand/v2"
	"sort"

	"github.com/wizenheimer/comet"
)

// ---------------------------------------------------------------------------
// hybrid reference model = vector model + BM25 model + metadata model + fusion (C05 text)
// ---------------------------------------------------------------------------

type hybridModel struct {
	hasVec, hasTxt, hasMeta bool
	metric                  comet.DistanceKind
	dim                     int
	vec                     *vecModel
	txt                     *bm25Model
	meta                    *metaModel
	seenFields              map[string]bool
	docs                    map[uint32]bool // live documents (any modality)
	// set by expect(): the per-modality score maps of the last query, and whether rank ties inside them were the ONLY
	// source of ambiguity (then every RRF score still has to lie between its best and its worst legal rank assignment)
	lastV, lastT     map[uint32]float64
	lastOnlyRankTies bool
}

func newHybridModel(hasVec, hasTxt, hasMeta bool, metric comet.DistanceKind, dim int, schema *metaSchema) *hybridModel {
	return &hybridModel{hasVec: hasVec, hasTxt: hasTxt, hasMeta: hasMeta, metric: metric, dim: dim,
		vec: newVecModel(metric, dim), txt: newBM25Model(), meta: newMetaModel(schema), seenFields: map[string]bool{}, docs: map[uint32]bool{}}
}

// add mirrors hybrid Add: a modality is stored only if the index exists and the part is non-empty.
func (h *hybridModel) add(id uint32, v []float32, text string, md map[string]any) {
	if h.hasVec && len(v) > 0 {
		h.vec.add(id, v)
	}
	if h.hasTxt && text != "" {
		h.txt.add(id, text)
	}
	if h.hasMeta && len(md) > 0 {
		cp := map[string]any{}
		for k, x := range md {
			cp[k] = x
			h.seenFields[k] = true
		}
		h.meta.docs[id] = cp
	}
	h.docs[id] = true
}

func (h *hybridModel) remove(id uint32) {
	h.vec.remove(id)
	h.txt.remove(id)
	delete(h.meta.docs, id)
	delete(h.docs, id)
}

func (h *hybridModel) flush() { h.vec.flush(); h.txt.flush() }

type hybridQuery struct {
	Vector  []float32
	Texts   []string
	Filters []modelFilter   // AND list (WithMetadata)
	Groups  [][]modelFilter // OR of AND groups (WithMetadataGroups)
	K       int
	Fusion  comet.FusionKind
	WV, WT  float64
	RRFK    float64
	Via     int // how the fusion is handed over: 0 WithFusion(NewFusion(kind, cfg)), 1 WithFusionKind(kind) = default config, 2 not at all = DefaultFusion()
	Agg     comet.ScoreAggregationKind
}

func (q hybridQuery) String() string {
	var fs, gs []string
	for _, f := range q.Filters {
		fs = append(fs, f.desc)
	}
	for _, g := range q.Groups {
		var d []string
		for _, f := range g {
			d = append(d, f.desc)
		}
		gs = append(gs, fmt.Sprint(d))
	}
	return fmt.Sprintf("vector=%v texts=%q filters=%v groups=%v k=%d fusion=%s(wv=%.3g wt=%.3g K=%g via=%d) agg=%s", q.Vector != nil, q.Texts, fs, gs, q.K, q.Fusion, q.WV, q.WT, q.RRFK, q.Via, q.Agg)
}

type scored struct {
	id uint32
	s  float64
}

// topKSet returns the k best of l (ascending if asc) and whether a tie within tol sits on the boundary.
func topKSet(l []scored, k int, asc bool, tol func(float64) float64) (map[uint32]float64, bool) {
	sort.Slice(l, func(a, b int) bool {
		if asc {
			return l[a].s < l[b].s
		}
		return l[a].s > l[b].s
	})
	tie := false
	if k > 0 && k < len(l) {
		if math.Abs(l[k-1].s-l[k].s) <= tol(l[k].s) {
			tie = true
		}
		l = l[:k]
	}
	out := map[uint32]float64{}
	for _, x := range l {
		out[x.id] = x.s
	}
	return out, tie
}

func fuseRef(kind comet.FusionKind, v, t map[uint32]float64, wv, wt, K float64) (map[uint32]float64, bool) {
	out := map[uint32]float64{}
	tieAmb := false
	switch kind {
	case comet.WeightedSumFusion:
		for id, s := range v {
			out[id] = s * wv
		}
		for id, s := range t {
			out[id] += s * wt
		}
	case comet.MaxFusion:
		for id, s := range v {
			out[id] = s
		}
		for id, s := range t {
			if o, ok := out[id]; !ok || s > o {
				out[id] = s
			}
		}
	case comet.MinFusion:
		for id, s := range v {
			if st, ok := t[id]; ok {
				out[id] = math.Min(s, st)
			}
		}
	case comet.ReciprocalRankFusion:
		rank := func(m map[uint32]float64, asc bool) map[uint32]int {
			var l []scored
			for id, s := range m {
				l = append(l, scored{id, s})
			}
			sort.Slice(l, func(a, b int) bool {
				if asc {
					return l[a].s < l[b].s
				}
				return l[a].s > l[b].s
			})
			rk := map[uint32]int{}
			for i, x := range l {
				rk[x.id] = i
				if i > 0 && math.Abs(l[i-1].s-x.s) <= 1e-5*math.Abs(x.s)+1e-6 {
					tieAmb = true
				}
			}
			return rk
		}
		for id, rk := range rank(v, true) {
			out[id] += 1 / (K + float64(rk))
		}
		for id, rk := range rank(t, false) {
			out[id] += 1 / (K + float64(rk))
		}
	}
	return out, tieAmb
}

// hybridExpect computes the legal answers of q. errWanted: the query must be rejected (modality not configured).
// alts: legal (id->score) maps before the final top-k (more than one only in the open corner); ambiguous: a tie
// makes candidate selection or ranks implementation-defined (soundness only).
func (h *hybridModel) expect(q hybridQuery) (errWanted bool, alts []map[uint32]float64, ambiguous bool, unsharpFilter bool, cand map[uint32]bool, filtered bool) {
	h.lastV, h.lastT, h.lastOnlyRankTies = nil, nil, false
	filtered = len(q.Filters) > 0 || len(q.Groups) > 0
	if filtered && !h.hasMeta {
		return true, nil, false, false, nil, filtered
	}
	if len(q.Vector) > 0 && !h.hasVec {
		errWanted = true
	}
	if len(q.Texts) > 0 && !h.hasTxt {
		errWanted = true
	}
	if filtered {
		groups := q.Groups
		if len(groups) == 0 { // comet: groups win over the plain list when both are given
			groups = [][]modelFilter{q.Filters}
		}
		a, sharp := metaExpect(h.meta, groups, h.seenFields)
		if !sharp || len(a) != 1 {
			return errWanted, nil, true, true, nil, filtered
		}
		cand = a[0]
		// open corner: a live document that carries no metadata at all is unknown to the metadata index;
		// whether a complement-style filter (ne / not_in / not_exists) "matches" it is not defined by C05
		empty := &metaModel{schema: h.meta.schema, docs: map[uint32]map[string]any{0: {}}}
		if m0, _ := empty.evalGroups(groups, h.meta.schema.types); len(m0) > 0 {
			for id := range h.docs {
				if _, ok := h.meta.docs[id]; !ok {
					ambiguous = true
					break
				}
			}
		}
		if len(cand) == 0 {
			// a filter that matches nothing yields an empty result (before any modality check in comet; the
			// property does not order the two, so an error is accepted as well when errWanted)
			return errWanted, []map[uint32]float64{{}}, false, false, cand, filtered
		}
	}
	if errWanted {
		return true, nil, false, false, cand, filtered
	}
	inCand := func(id uint32) bool { return !filtered || cand[id] }
	var V, T map[uint32]float64
	if len(q.Vector) > 0 {
		var l []scored
		for id := range h.vec.live {
			if inCand(id) {
				l = append(l, scored{id, trueDist(h.metric, q.Vector, h.vec.raw[id])})
			}
		}
		var tie bool
		V, tie = topKSet(l, q.K, true, func(s float64) float64 { return 2 * distTol(h.metric, h.dim, s) })
		if tie {
			ambiguous = true
		}
	}
	if len(q.Texts) > 0 {
		type acc struct {
			sum, max float64
			n        int
		}
		a := map[uint32]*acc{}
		for _, tq := range q.Texts {
			if hasRepeatedToken(tq) {
				ambiguous = true // open corner of C03
			}
			var l []scored
			for id, s := range h.txt.scores(tq, true) {
				if inCand(id) {
					l = append(l, scored{id, s})
				}
			}
			top, tie := topKSet(l, q.K, false, func(s float64) float64 { return 1e-5*math.Abs(s) + 1e-9 })
			if tie {
				ambiguous = true
			}
			for id, s := range top {
				c := a[id]
				if c == nil {
					c = &acc{max: math.Inf(-1)}
					a[id] = c
				}
				c.sum += s
				c.n++
				c.max = math.Max(c.max, s)
			}
		}
		var l []scored
		for id, c := range a {
			s := c.sum
			switch q.Agg {
			case comet.MaxAggregation:
				s = c.max
			case comet.MeanAggregation:
				s = c.sum / float64(c.n)
			}
			l = append(l, scored{id, s})
		}
		var tie bool
		T, tie = topKSet(l, q.K, false, func(s float64) float64 { return 1e-5*math.Abs(s) + 1e-9 })
		if tie {
			ambiguous = true
		}
	}
	metaOnly := func() map[uint32]float64 {
		out := map[uint32]float64{}
		for id := range cand {
			out[id] = 1
		}
		return out
	}
	switch {
	case len(q.Vector) > 0 && len(q.Texts) > 0:
		if len(V) > 0 && len(T) > 0 {
			f, tieAmb := fuseRef(q.Fusion, V, T, q.WV, q.WT, q.RRFK)
			h.lastV, h.lastT, h.lastOnlyRankTies = V, T, tieAmb && !ambiguous
			if tieAmb {
				ambiguous = true
			}
			alts = append(alts, f)
		} else {
			// open corner: both queried, one side empty: pass-through or fusion with an empty side
			pass := V
			if len(V) == 0 {
				pass = T
			}
			if pass == nil {
				pass = map[uint32]float64{}
			}
			f, _ := fuseRef(q.Fusion, V, T, q.WV, q.WT, q.RRFK)
			alts = append(alts, pass, f)
		}
	case len(q.Vector) > 0:
		alts = append(alts, V)
	case len(q.Texts) > 0:
		alts = append(alts, T)
	default:
		if filtered {
			alts = append(alts, metaOnly())
		} else {
			alts = append(alts, map[uint32]float64{})
		}
	}
	return false, alts, ambiguous, false, cand, filtered
}

// --------------------------------------------------------------------------- generators

func genHybridQuery(rng *rand.Rand, h *hybridModel, vg *vecGen, tg *textGen) hybridQuery {
	var q hybridQuery
	for {
		useV, useT, useF, useG := rng.IntN(2) == 0, rng.IntN(2) == 0, rng.IntN(3) == 0, rng.IntN(4) == 0
		// mostly ask configured modalities; sometimes a non-configured one (must be rejected)
		if !h.hasVec && rng.IntN(6) > 0 {
			useV = false
		}
		if !h.hasTxt && rng.IntN(6) > 0 {
			useT = false
		}
		if !h.hasMeta && rng.IntN(6) > 0 {
			useF, useG = false, false
		}
		if !(useV || useT || useF || useG) {
			continue
		}
		if useF && useG { // comet lets groups win over the plain list; the property speaks of "the filter": give one form
			if rng.IntN(2) == 0 {
				useF = false
			} else {
				useG = false
			}
		}
		if useV {
			q.Vector = vg.query()
			if rng.IntN(8) == 0 {
				// a query far away from everything: all distances are huge and nearly equal, so the fused scores of
				// documents sharing a vector differ by far less than a float32 ulp of the distance (ordering must still be
				// the ordering of the float64 scores that are reported)
				for i := range q.Vector {
					q.Vector[i] *= 1e6
				}
			}
		}
		if useT {
			n := 1 + rng.IntN(2)
			for i := 0; i < n; i++ {
				t := tg.word()
				if rng.IntN(2) == 0 {
					t += " " + tg.word()
				}
				q.Texts = append(q.Texts, t)
			}
		}
		if useF {
			for i := 0; i < 1+rng.IntN(2); i++ {
				q.Filters = append(q.Filters, genLeaf(rng, h.meta, false))
			}
		}
		if useG {
			for g := 0; g < 1+rng.IntN(2); g++ {
				var grp []modelFilter
				if rng.IntN(3) == 0 {
					grp = append(grp, orGroupMarker()) // FilterGroup{Logic: OR}
				}
				for i := 0; i < 1+rng.IntN(3); i++ {
					if g > 0 && rng.IntN(3) == 0 {
						// the same filter again, as in (A and x>5) or (A and x<2)
						_, prev := splitGroup(q.Groups[rng.IntN(len(q.Groups))])
						grp = append(grp, prev[rng.IntN(len(prev))])
						continue
					}
					grp = append(grp, genLeaf(rng, h.meta, false))
				}
				q.Groups = append(q.Groups, grp)
			}
		}
		break
	}
	q.K = []int{1, 2, 5, 50}[rng.IntN(4)]
	q.Fusion = []comet.FusionKind{comet.WeightedSumFusion, comet.ReciprocalRankFusion, comet.MaxFusion, comet.MinFusion}[rng.IntN(4)]
	q.WV, q.WT = 1, 1
	if rng.IntN(2) == 0 {
		q.WV, q.WT = rng.Float64()*2, rng.Float64()*2
	}
	switch rng.IntN(12) {
	case 0: // a weight of exactly 0 switches a modality's contribution off, nothing else: the other side keeps its weight
		q.WV, q.WT = 0, []float64{2, 3, 0.5, 1}[rng.IntN(4)]
	case 1:
		q.WV, q.WT = []float64{2, 3, 0.5, 1}[rng.IntN(4)], 0
	}
	q.RRFK = []float64{1, 60, 60, 10000, 0.5, 2.5}[rng.IntN(6)]
	switch rng.IntN(6) {
	case 0: // by kind: the library's default configuration (weights 1/1, K = 60)
		q.Via, q.WV, q.WT, q.RRFK = 1, 1, 1, 60
	case 1: // no fusion given at all: the default fusion (weighted sum, weights 1/1)
		q.Via, q.Fusion, q.WV, q.WT, q.RRFK = 2, comet.WeightedSumFusion, 1, 1, 60
	}
	q.Agg = []comet.ScoreAggregationKind{comet.SumAggregation, comet.MaxAggregation, comet.MeanAggregation}[rng.IntN(3)]
	return q
}

func applyHybridQuery(s comet.HybridSearch, q hybridQuery) comet.HybridSearch {
	if q.Vector != nil {
		s = s.WithVector(cloneF32(q.Vector))
	}
	if len(q.Texts) > 0 {
		s = s.WithText(q.Texts...)
	}
	if len(q.Filters) > 0 {
		fs := make([]comet.Filter, len(q.Filters))
		for i, f := range q.Filters {
			fs[i] = f.impl
		}
		s = s.WithMetadata(fs...)
	}
	if len(q.Groups) > 0 {
		var gs []*comet.FilterGroup
		for _, g := range q.Groups {
			gs = append(gs, cometGroup(g))
		}
		s = s.WithMetadataGroups(gs...)
	}
	switch q.Via {
	case 1:
		return s.WithK(q.K).WithFusionKind(q.Fusion).WithScoreAggregation(q.Agg)
	case 2:
		return s.WithK(q.K).WithScoreAggregation(q.Agg)
	}
	f, _ := comet.NewFusion(q.Fusion, &comet.FusionConfig{VectorWeight: q.WV, TextWeight: q.WT, K: q.RRFK})
	return s.WithK(q.K).WithFusion(f).WithScoreAggregation(q.Agg)
}

// rrfRange: the smallest and the largest reciprocal-rank contribution id can legally get inside m (asc: smaller is
// better), ranks being 0-based positions of a best-first ordering in which scores within tol of each other may come in
// either order. Absent id: no contribution.
func rrfRange(m map[uint32]float64, id uint32, asc bool, K float64, tol func(float64) float64) (lo, hi float64) {
	s, ok := m[id]
	if !ok {
		return 0, 0
	}
	better, tied := 0, 0
	for o, so := range m {
		if o == id {
			continue
		}
		d := so - s
		if !asc {
			d = -d
		}
		switch {
		case d < -tol(s):
			better++
		case d <= tol(s):
			tied++
		}
	}
	return 1 / (K + float64(better+tied)), 1 / (K + float64(better))
}
