package mon

import (
	"fmt"
	"math"
	"math/rand/v2"

	"github.com/wizenheimer/comet"

	"verif/internal/ev"
)

func init() { register("C15", "exploration", runC15) }

func topIDs(idx comet.VectorIndex, q []float32, k int, nprobes int, useNP bool) ([]uint32, error) {
	s := idx.NewSearch().WithQuery(cloneF32(q)).WithK(k)
	if useNP {
		s = s.WithNProbes(nprobes)
	}
	res, err := s.Execute()
	if err != nil {
		return nil, err
	}
	out := make([]uint32, len(res))
	for i, x := range res {
		out[i] = x.GetId()
	}
	return out, nil
}

func runC15(r *ev.Run) {
	r.Rule = "case = one data set of about 3000 (exactly 3000, or 2701..3299 and no round number) i.i.d. N(0,1)^16 points + 100 queries (seed-derived), one metric, one approximate kind built through the public API exactly as a user would (Train(points) then Add in generation or shuffled order); " +
		"measured: recall@10 and true-NN-in-top-10 against FlatIndex on the same data, IVF also at full probe, and recall@10/self-recall when querying with the stored vectors of the first vs the last inserted tenth; " +
		"compared with the floors stated in C15; non-trivial = every case (all points indexed, 100 queries actually searched); distinct by (kind, metric, data seed, order)"
	r.Assumptions = []string{"FlatIndex is the exact reference (itself monitored by C01)", "floors are the property's own (HNSW 0.9, IVF 0.4 / 1.0 full probe, PQ and IVFPQ 0.5 with top-1-in-10 >= 0.85, first/last tenth within 0.1)"}
	nSets := r.Pick(2, 8)
	const D, Q, K = 16, 100, 10
	// "about 3000 points": every even data set has exactly 3000, every odd one a seed-derived size in 2701..3299 that is
	// no multiple of 1000, 256 or 100 (work split into chunks, bulk thresholds and "last partial block" paths)
	sizeOf := func(set int) int {
		if set%2 == 0 {
			return 3000
		}
		rg := r.Rng("dataset-size", set)
		for {
			n := 2701 + rg.IntN(599)
			if n%1000 != 0 && n%256 != 0 && n%100 != 0 {
				return n
			}
		}
	}
	type job struct {
		kind   string
		metric comet.DistanceKind
		set    int
		shuf   bool
	}
	var jobs []job
	for set := 0; set < nSets; set++ {
		for _, kind := range []string{"hnsw", "ivf", "pq", "ivfpq"} {
			for _, metric := range allMetrics {
				jobs = append(jobs, job{kind, metric, set, (set+len(jobs))%2 == 1})
			}
		}
	}
	r.CasesParallel("recall", len(jobs), 12, func(ci int, _ *rand.Rand) {
		j := jobs[ci]
		rng := r.Rng("dataset", j.set) // the same data for every kind of a set
		N := sizeOf(j.set)
		// ids: 1..N for even data sets; odd ones carry ids a database would hand out — beyond 2^20, beyond 2^31
		idBase := []uint32{0, 1<<20 + 7, 0, 3 << 30}[j.set%4]
		pts := make([][]float32, N)
		for i := range pts {
			pts[i] = make([]float32, D)
			for d := range pts[i] {
				pts[i][d] = float32(rng.NormFloat64())
			}
		}
		qs := make([][]float32, Q)
		for i := range qs {
			qs[i] = make([]float32, D)
			for d := range qs[i] {
				qs[i][d] = float32(rng.NormFloat64())
			}
		}
		order := make([]int, N)
		for i := range order {
			order[i] = i
		}
		if j.shuf {
			rng.Shuffle(N, func(a, b int) { order[a], order[b] = order[b], order[a] })
		}
		desc := fmt.Sprintf("%s %s set=%d n=%d shuffled=%v", j.kind, j.metric, j.set, N, j.shuf)
		fail := func(sig, what string) {
			r.ViolationAt("recall", ci, sig, desc+": "+what, map[string]any{"kind": j.kind, "metric": j.metric, "dataset": j.set, "shuffled": j.shuf, "n": N, "dim": D, "queries": Q})
		}
		flat, _ := comet.NewFlatIndex(D, j.metric)
		var idx comet.VectorIndex
		var err error
		fullProbe := 0
		nlist := 0
		switch j.kind {
		case "hnsw":
			// "default parameters": spelled out, or asked for by passing 0 ("pass 0 for default"), for all or some of them
			m, efc, efs := comet.DefaultHNSWConfig()
			var h *comet.HNSWIndex
			switch (j.set + ci) % 4 {
			case 0:
				h, err = comet.NewHNSWIndex(D, j.metric, m, efc, efs)
			case 1:
				h, err = comet.NewHNSWIndex(D, j.metric, 0, 0, 0)
			case 2:
				h, err = comet.NewHNSWIndex(D, j.metric, m, 0, 0)
			default:
				h, err = comet.NewHNSWIndex(D, j.metric, 0, efc, 0)
			}
			if err == nil {
				if g := comet.VerifHNSWGraph(h); g.M != m || g.EfConstruction != efc || g.EfSearch != efs {
					fail("recall.hnsw.defaults-not-applied", fmt.Sprintf("constructor variant %d: M=%d efConstruction=%d efSearch=%d, documented defaults %d/%d/%d", (j.set+ci)%4, g.M, g.EfConstruction, g.EfSearch, m, efc, efs))
				}
				idx = h
			}
		case "ivf":
			nlist = []int{16, 32, 64}[j.set%3]
			idx, err = comet.NewIVFIndex(D, nlist, j.metric)
			fullProbe = nlist
		case "pq":
			// M from the library's own recommendation for this dimension (8 for D=16), as a user following the
			// documentation would do: the envelope in C15 was measured there. (With M=4 cosine PQ drops to
			// recall 0.15 because codebooks are trained on raw vectors while normalised ones are stored — an
			// observation recorded in DESIGN.md §5, outside the documented envelope.)
			pm, pb := comet.CalculatePQParams(D)
			idx, err = comet.NewPQIndex(D, j.metric, pm, pb)
		case "ivfpq":
			nlist = []int{8, 16}[j.set%2]
			pm, pb := comet.CalculatePQParams(D)
			idx, err = comet.NewIVFPQIndex(D, j.metric, nlist, pm, pb)
			fullProbe = nlist
		}
		if err != nil {
			fail("recall.setup", err.Error())
			return
		}
		if j.kind != "hnsw" {
			train := make([]comet.VectorNode, N)
			for i := range train {
				train[i] = *comet.NewVectorNodeWithID(idBase+uint32(i+1), cloneF32(pts[i]))
			}
			if err := idx.Train(train); err != nil {
				fail("recall.train", err.Error())
				return
			}
		}
		for _, i := range order {
			id := idBase + uint32(i+1)
			if err := idx.Add(*comet.NewVectorNodeWithID(id, cloneF32(pts[i]))); err != nil {
				fail("recall.add", err.Error())
				return
			}
			flat.Add(*comet.NewVectorNodeWithID(id, cloneF32(pts[i])))
		}
		measure := func(queries [][]float32, useNP bool, np int) (recall, top1 float64, ok bool) {
			hit, tot, t1 := 0, 0, 0
			for _, q := range queries {
				exact, err1 := topIDs(flat, q, K, 0, false)
				got, err2 := topIDs(idx, q, K, np, useNP)
				if err1 != nil || err2 != nil {
					fail("recall.search-error", fmt.Sprintf("%v %v", err1, err2))
					return 0, 0, false
				}
				in := map[uint32]bool{}
				for _, id := range got {
					in[id] = true
				}
				for _, id := range exact {
					tot++
					if in[id] {
						hit++
					}
				}
				if len(exact) > 0 && in[exact[0]] {
					t1++
				}
			}
			return float64(hit) / float64(tot), float64(t1) / float64(len(queries)), true
		}
		rec, top1, ok := measure(qs, false, 0)
		if !ok {
			return
		}
		metrics := map[string]any{"case": desc, "recall@10": rec, "top1_in_10": top1}
		switch j.kind {
		case "hnsw":
			if rec < 0.9 {
				fail("recall.hnsw.below-0.9", fmt.Sprintf("recall@10 = %.3f with default parameters", rec))
			}
		case "ivf":
			if rec < 0.4 {
				fail("recall.ivf.below-0.4", fmt.Sprintf("recall@10 = %.3f at the default sqrt(nlist) probes (nlist=%d)", rec, nlist))
			}
			recFull, _, ok := measure(qs, true, fullProbe)
			if ok && recFull != 1.0 {
				fail("recall.ivf.full-probe-not-1", fmt.Sprintf("recall@10 = %.4f when probing all %d clusters", recFull, nlist))
			}
			metrics["recall@10_full_probe"] = recFull
		case "pq":
			if rec < 0.5 {
				fail("recall.pq.below-0.5", fmt.Sprintf("recall@10 = %.3f", rec))
			}
			if top1 < 0.85 {
				fail("recall.pq.top1-below-0.85", fmt.Sprintf("true nearest neighbour in top 10 for %.2f of queries", top1))
			}
		case "ivfpq":
			recFull, top1Full, ok := measure(qs, true, fullProbe)
			if ok {
				metrics["recall@10_full_probe"], metrics["top1_in_10_full_probe"] = recFull, top1Full
				if recFull < 0.5 {
					fail("recall.ivfpq.below-0.5", fmt.Sprintf("recall@10 = %.3f probing all clusters", recFull))
				}
				if top1Full < 0.85 {
					fail("recall.ivfpq.top1-below-0.85", fmt.Sprintf("true nearest neighbour in top 10 for %.2f of queries (full probe)", top1Full))
				}
			}
		}
		// insertion order: first vs last inserted tenth, queried with their own stored vectors
		tenth := N / 10
		var firstQ, lastQ [][]float32
		var firstID, lastID []uint32
		for t := 0; t < tenth; t += 3 { // every third vector of each tenth: 100 queries each
			firstQ = append(firstQ, pts[order[t]])
			firstID = append(firstID, idBase+uint32(order[t]+1))
			lastQ = append(lastQ, pts[order[N-tenth+t]])
			lastID = append(lastID, idBase+uint32(order[N-tenth+t]+1))
		}
		useNP := fullProbe > 0 && j.kind == "ivfpq"
		rf, _, ok1 := measure(firstQ, useNP, fullProbe)
		rl, _, ok2 := measure(lastQ, useNP, fullProbe)
		self := func(queries [][]float32, ids []uint32) float64 {
			hit := 0
			for i, q := range queries {
				got, err := topIDs(idx, q, K, fullProbe, useNP)
				if err != nil {
					return math.NaN()
				}
				for _, id := range got {
					if id == ids[i] {
						hit++
						break
					}
				}
			}
			return float64(hit) / float64(len(queries))
		}
		sf, sl := self(firstQ, firstID), self(lastQ, lastID)
		metrics["recall_first_tenth"], metrics["recall_last_tenth"] = rf, rl
		metrics["self_recall_first_tenth"], metrics["self_recall_last_tenth"] = sf, sl
		if ok1 && ok2 && math.Abs(rf-rl) > 0.1 {
			fail("recall."+j.kind+".insertion-order-dependent", fmt.Sprintf("recall@10 first tenth %.3f vs last tenth %.3f", rf, rl))
		}
		if math.Abs(sf-sl) > 0.1 {
			fail("recall."+j.kind+".insertion-order-dependent", fmt.Sprintf("self-recall first tenth %.3f vs last tenth %.3f", sf, sl))
		}
		r.Sample(metrics)
		r.Count("indexes-built:"+j.kind, 1)
		r.Count("queries-compared-with-exact-search", int64(Q+len(firstQ)+len(lastQ)))
		r.Extra(fmt.Sprintf("measured:%s", desc), metrics)
		r.Eval(true, ev.Digest(j.kind, j.metric, j.set, j.shuf))
	})
}
