// Package mon holds one runtime monitor per property.
package mon

import "verif/internal/ev"

// Monitor is one property's check.
type Monitor struct {
	Level string
	Run   func(r *ev.Run)
}

// Registry maps property id to monitor.
var Registry = map[string]Monitor{}

func register(id, level string, f func(r *ev.Run)) {
	Registry[id] = Monitor{Level: level, Run: f}
}
