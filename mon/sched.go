package mon

import (
	"bytes"
	"fmt"
	"math/rand/v2"
	"runtime"
	"strconv"
	"sync"
	"sync/atomic"
	"time"

	"github.com/wizenheimer/comet"
)

// ---------------------------------------------------------------------------
// hook dispatcher (DESIGN §3.5): one process-wide handler, thread-safe, with trace, per-point counters
// and a "targeted" mode that pauses the goroutine reaching a chosen point while an action runs elsewhere.
// ---------------------------------------------------------------------------

type hookEvent struct {
	Seq   int64
	Gid   uint64
	Point string
}

type hookCtl struct {
	mu      sync.Mutex
	seq     int64
	trace   []hookEvent
	counts  map[string]int64
	keepTrc bool
	// observers are called for every event (under no lock) - must be cheap and thread-safe
	observers []func(point string, args []any)
	// target: when point Target is hit for the Nth time (1-based) run Action and continue
	target       string
	targetN      int
	targetHits   int
	targetAction func(args []any)
	targetFired  bool
	// extra one-shot targets (depth-2 schedules: the action run beside a paused operation is itself paused)
	extra []*hookTarget
}

type hookTarget struct {
	point  string
	n      int
	hits   int
	fired  bool
	action func(args []any)
}

func newHookCtl() *hookCtl { return &hookCtl{counts: map[string]int64{}} }

func goid() uint64 {
	var buf [64]byte
	b := buf[:runtime.Stack(buf[:], false)]
	b = bytes.TrimPrefix(b, []byte("goroutine "))
	i := bytes.IndexByte(b, ' ')
	if i < 0 {
		return 0
	}
	id, _ := strconv.ParseUint(string(b[:i]), 10, 64)
	return id
}

func (h *hookCtl) install() {
	comet.VerifSetHook(func(point string, args ...any) { h.handle(point, args) })
}

func (h *hookCtl) uninstall() { comet.VerifSetHook(nil) }

func (h *hookCtl) handle(point string, args []any) {
	h.mu.Lock()
	h.seq++
	h.counts[point]++
	if h.keepTrc {
		h.trace = append(h.trace, hookEvent{h.seq, goid(), point})
	}
	var act func(args []any)
	if h.target != "" && point == h.target && !h.targetFired {
		h.targetHits++
		if h.targetHits == h.targetN {
			h.targetFired = true
			act = h.targetAction
		}
	}
	var act2 func(args []any)
	for _, t := range h.extra {
		if !t.fired && t.point == point && act == nil && act2 == nil {
			t.hits++
			if t.hits == t.n {
				t.fired = true
				act2 = t.action
			}
		}
	}
	obs := h.observers
	h.mu.Unlock()
	for _, o := range obs {
		o(point, args)
	}
	if act != nil {
		act(args)
	}
	if act2 != nil {
		act2(args)
	}
}

// addTarget arms an additional one-shot action at the n-th hit of point, counted from now on.
func (h *hookCtl) addTarget(point string, n int, action func(args []any)) *hookTarget {
	t := &hookTarget{point: point, n: n, action: action}
	h.mu.Lock()
	h.extra = append(h.extra, t)
	h.mu.Unlock()
	return t
}

func (h *hookCtl) targetDone(t *hookTarget) bool {
	h.mu.Lock()
	defer h.mu.Unlock()
	return t.fired
}

// setTarget arms a one-shot action at the n-th hit of point.
func (h *hookCtl) setTarget(point string, n int, action func(args []any)) {
	h.mu.Lock()
	h.target, h.targetN, h.targetHits, h.targetFired, h.targetAction = point, n, 0, false, action
	h.extra = nil
	h.mu.Unlock()
}

func (h *hookCtl) fired() bool {
	h.mu.Lock()
	defer h.mu.Unlock()
	return h.targetFired
}

func (h *hookCtl) clearTarget() { h.setTarget("", 0, nil) }

func (h *hookCtl) count(point string) int64 {
	h.mu.Lock()
	defer h.mu.Unlock()
	return h.counts[point]
}

func (h *hookCtl) snapshotCounts() map[string]int64 {
	h.mu.Lock()
	defer h.mu.Unlock()
	out := make(map[string]int64, len(h.counts))
	for k, v := range h.counts {
		out[k] = v
	}
	return out
}

// signature hashes the order of (point, goroutine-role) since the trace was last reset.
func (h *hookCtl) signature() string {
	h.mu.Lock()
	defer h.mu.Unlock()
	roles := map[uint64]int{}
	var b bytes.Buffer
	for _, e := range h.trace {
		r, ok := roles[e.Gid]
		if !ok {
			r = len(roles)
			roles[e.Gid] = r
		}
		fmt.Fprintf(&b, "%s@%d;", e.Point, r)
	}
	return fmt.Sprintf("%x", fnvHash(b.Bytes()))
}

func (h *hookCtl) resetTrace(keep bool) {
	h.mu.Lock()
	h.trace = nil
	h.keepTrc = keep
	h.mu.Unlock()
}

func fnvHash(b []byte) uint64 {
	var x uint64 = 14695981039346656037
	for _, c := range b {
		x ^= uint64(c)
		x *= 1099511628211
	}
	return x
}

// runBeside runs action on another goroutine while the calling goroutine (paused at a hook point) waits up to
// grace for it. If the action needs a lock the paused goroutine holds it cannot finish in time: the caller then
// resumes and the action completes later; done is closed when it does. Returns whether it finished in time.
func runBeside(action func(), grace time.Duration) (finishedInTime bool, done chan struct{}) {
	done = make(chan struct{})
	go func() {
		defer close(done)
		action()
	}()
	select {
	case <-done:
		return true, done
	case <-time.After(grace):
		return false, done
	}
}

func runtimeGosched() { runtime.Gosched() }

// installPerturbation installs a handler that, at every hook point, yields or sleeps briefly with PRNG-chosen
// probability, to widen the interleavings a stress run sees (between critical sections; never changes results).
func installPerturbation(seed uint64) (uninstall func(), hits *atomic.Int64) {
	var mu sync.Mutex
	rng := rand.New(rand.NewPCG(seed, 0x9e3779b97f4a7c15))
	hits = &atomic.Int64{}
	comet.VerifSetHook(func(point string, args ...any) {
		if point == "memq.rotate" { // inside the queue lock: a pause there adds nothing
			return
		}
		mu.Lock()
		c := rng.IntN(32)
		n := 1 + rng.IntN(3)
		d := time.Duration(50+rng.IntN(250)) * time.Microsecond
		mu.Unlock()
		switch {
		case c < 8:
			for i := 0; i < n; i++ {
				runtime.Gosched()
			}
			hits.Add(1)
		case c < 10:
			time.Sleep(d)
			hits.Add(1)
		}
	})
	return func() { comet.VerifSetHook(nil) }, hits
}
