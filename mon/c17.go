package mon

import (
	"bufio"
	"fmt"
	"math/rand/v2"
	"os"
	"os/exec"
	"path/filepath"
	"strings"
	"sync"
	"sync/atomic"
	"syscall"
	"time"

	"github.com/wizenheimer/comet"

	"verif/internal/ev"
)

func init() { register("C17", "exploration", runC17) }

// dirState is everything observable about a store directory (LOCK content included).
func dirState(dir string) string {
	ents, err := os.ReadDir(dir)
	if err != nil {
		return "unreadable: " + err.Error()
	}
	var b strings.Builder
	for _, e := range ents {
		c, _ := os.ReadFile(filepath.Join(dir, e.Name()))
		fmt.Fprintf(&b, "%s:%d:%x;", e.Name(), len(c), fnvHash(c))
	}
	return b.String()
}

func lockPresent(dir string) bool {
	_, err := os.Stat(filepath.Join(dir, "LOCK"))
	return err == nil
}

// withFDLimit lowers RLIMIT_NOFILE so that exactly `spare` more descriptors can be opened, runs f, and restores
// the limit. Used to make the directory listing fail AFTER the LOCK file has been created (we run as root, so
// chmod cannot make a directory unlistable).
func withFDLimit(spare int, f func()) (ok bool) {
	var lim syscall.Rlimit
	if err := syscall.Getrlimit(syscall.RLIMIT_NOFILE, &lim); err != nil {
		return false
	}
	probe, err := os.Open(os.DevNull)
	if err != nil {
		return false
	}
	lowest := int(probe.Fd())
	probe.Close()
	low := lim
	low.Cur = uint64(lowest + spare)
	if err := syscall.Setrlimit(syscall.RLIMIT_NOFILE, &low); err != nil {
		return false
	}
	defer syscall.Setrlimit(syscall.RLIMIT_NOFILE, &lim)
	f()
	return true
}

func runC17(r *ev.Run) {
	r.Rule = "stream 'sequence': case = PRNG sequence of Open / Close / second Close / failed Open (nil config, base directory under a regular file, directory already owned, directory listing failing after the lock was taken) / operations on closed handles on ONE directory, " +
		"checked against a free|owned model: a second Open must fail and leave the directory (file set, LOCK bytes, segment bytes) untouched, a failed Open must leave no LOCK, after Close the next Open succeeds, every operation on a closed handle errors, a second Close errors and does not touch a new owner's LOCK. " +
		"stream 'race': 2-8 goroutines race to Open the same directory (exactly one may win), and Add / search / Flush race with Close (each returns nil or an error, none panics or hangs, all fail afterwards). " +
		"stream 'process': another process (cmd/storehelper) holds the directory / is refused while this process holds it. non-trivial = sequence contains a refused second Open, a failed Open after the lock and a stale-handle second Close while another owner is open; distinct by sequence digest Since the seed waves: streams 'concurrent-close' (spin-barrier Close calls), 'close-vs-compaction' (hand-over to the next owner while a compaction of the old handle is held), 'close-final-flush' (LOCK present and second Open refused while Close writes its final segment), directory spellings, a search object built before Close executed after it."
	r.Assumptions = []string{"'unlistable directory' is produced by lowering RLIMIT_NOFILE so that the ReadDir after the LOCK creation gets EMFILE (root cannot be denied by chmod)", "watchdog 60 s per racing operation: firing = hang"}
	p := storeParams{VecKind: "flat", Text: true, Meta: true, Dim: 2, Metric: comet.Euclidean, CompactionThreshold: 1000, MemtableSizeLimit: 1 << 20, FlushThreshold: 1 << 40}
	n := r.Pick(200, 3000)
	r.Cases("sequence", n, func(ci int, rng *rand.Rand) {
		dir, err := os.MkdirTemp("", "verif-c17-*")
		if err != nil {
			panic(err)
		}
		defer os.RemoveAll(dir)
		var log []string
		rep := func(sig, what string) {
			l := log
			if len(l) > 40 {
				l = l[len(l)-40:]
			}
			r.ViolationAt("sequence", ci, sig, what, map[string]any{"log_tail": l})
		}
		type handle struct {
			s      *comet.PersistentHybridIndex
			closed bool
			search comet.HybridSearch
		}
		var owner *handle
		var stale []*handle
		refused, failedAfterLock, staleCloseWhileOwned := 0, 0, 0
		ids := newIDGen(rng)
		ids.min = 1 << 24
		defer func() {
			if owner != nil {
				owner.s.Close()
			}
		}()
		for op := 0; op < 8+rng.IntN(20); op++ {
			switch c := rng.IntN(12); {
			case c < 3: // Open
				before := dirState(dir)
				s, err := p.open(spellDir(rng, dir))
				if owner != nil {
					log = append(log, fmt.Sprintf("Open while owned -> err=%v", err != nil))
					if err == nil {
						rep("own.second-open-succeeds", "Open succeeded while another handle of this process owns the directory")
						s.Close()
						return
					}
					if after := dirState(dir); after != before {
						rep("own.refused-open-modifies-directory", fmt.Sprintf("a refused Open changed the directory:\n before %s\n after  %s", before, after))
					}
					refused++
					r.Count("ops:open-refused", 1)
				} else {
					log = append(log, fmt.Sprintf("Open while free -> err=%v", err))
					if err != nil {
						rep("own.open-fails-on-free-directory", fmt.Sprintf("Open failed although no handle owns the directory: %v", err))
						return
					}
					if !lockPresent(dir) {
						rep("own.no-lock-while-open", "no LOCK file while the store is open")
					}
					// a search object built while the handle is open; it is executed again after Close (stale handle ops)
					owner = &handle{s: s, search: s.NewSearch().WithText("common").WithK(5)}
					if _, err := owner.search.Execute(); err != nil {
						rep("own.search-error", fmt.Sprintf("search on the open handle failed: %v", err))
					}
					// give it some content now and then
					if rng.IntN(2) == 0 {
						d := genStoreDoc(rng, p, ids.next(), "o")
						s.AddWithID(d.ID, d.Vec, d.Text, d.Meta)
						if rng.IntN(2) == 0 {
							s.Flush()
						}
					}
					r.Count("ops:open-ok", 1)
				}
			case c < 6: // Close the owner
				if owner == nil {
					continue
				}
				err := owner.s.Close()
				log = append(log, fmt.Sprintf("Close owner -> %v", err))
				if err != nil {
					rep("own.close-error", fmt.Sprintf("first Close failed: %v", err))
					return
				}
				if lockPresent(dir) {
					rep("own.lock-left-after-close", "LOCK still present after a successful Close")
				}
				owner.closed = true
				stale = append(stale, owner)
				owner = nil
				r.Count("ops:close", 1)
			case c < 8: // second Close on a stale handle
				if len(stale) == 0 {
					continue
				}
				h := stale[rng.IntN(len(stale))]
				before := dirState(dir)
				err := h.s.Close()
				log = append(log, fmt.Sprintf("second Close on a stale handle (owner present=%v) -> err=%v", owner != nil, err != nil))
				if err == nil {
					rep("own.second-close-succeeds", "a second Close returned nil")
				}
				if after := dirState(dir); after != before {
					rep("own.second-close-modifies-directory", fmt.Sprintf("a second Close on a stale handle changed the directory (new owner open: %v):\n before %s\n after  %s", owner != nil, before, after))
				}
				if owner != nil {
					staleCloseWhileOwned++
					// and the directory is still owned: a further Open must be refused
					if s2, err := p.open(spellDir(rng, dir)); err == nil {
						rep("own.second-open-succeeds", "after a stale handle's second Close, Open succeeded although the directory is owned")
						s2.Close()
						return
					}
				}
				r.Count("ops:second-close", 1)
			case c < 9: // operations on a closed handle
				if len(stale) == 0 {
					continue
				}
				h := stale[rng.IntN(len(stale))]
				d := genStoreDoc(rng, p, ids.next(), "c")
				before := dirState(dir)
				checks := map[string]func() error{
					"Add":       func() error { _, err := h.s.Add(d.Vec, d.Text, d.Meta); return err },
					"AddWithID": func() error { return h.s.AddWithID(d.ID, d.Vec, d.Text, d.Meta) },
					"Remove":    func() error { return h.s.Remove(d.ID) },
					"Flush":     func() error { return h.s.Flush() },
					"Search":    func() error { _, err := h.s.NewSearch().WithText("common").Execute(); return err },
					"Execute of a search object built before Close": func() error {
						if h.search == nil {
							return fmt.Errorf("(none)")
						}
						_, err := h.search.Execute()
						return err
					},
					"Train": func() error { return h.s.Train([][]float32{{1, 2}}) },
					// no return value: must simply neither panic nor block
					"TriggerCompaction": func() error { h.s.TriggerCompaction(); return fmt.Errorf("(no result)") },
				}
				for name, f := range checks {
					done := make(chan error, 1)
					go func() {
						defer func() {
							if p := recover(); p != nil {
								done <- fmt.Errorf("PANIC: %v", p)
							}
						}()
						done <- f()
					}()
					select {
					case err := <-done:
						if err == nil {
							rep("own.closed-handle-op-succeeds", name+" on a closed handle returned nil")
						} else if strings.HasPrefix(err.Error(), "PANIC") {
							rep("own.closed-handle-op-panics", name+" on a closed handle: "+err.Error())
						}
					case <-time.After(60 * time.Second):
						rep("own.closed-handle-op-hangs", name+" on a closed handle did not return within 60 s")
						return
					}
				}
				if after := dirState(dir); after != before {
					rep("own.closed-handle-op-modifies-directory", "operations on a closed handle changed the directory")
				}
				log = append(log, "ops on closed handle")
				r.Count("ops:on-closed-handle", 1)
			default: // failing opens
				kind := rng.IntN(3)
				before := dirState(dir)
				hadLock := lockPresent(dir)
				switch kind {
				case 0:
					if _, err := comet.OpenPersistentHybridIndex(nil); err == nil {
						rep("own.nil-config-accepted", "Open(nil) returned no error")
					}
					log = append(log, "Open(nil)")
				case 1:
					f := filepath.Join(dir, "regular-file")
					os.WriteFile(f, []byte("x"), 0o644)
					before = dirState(dir)
					cfg, _ := p.freshConfig(filepath.Join(f, "sub"))
					if s, err := comet.OpenPersistentHybridIndex(cfg); err == nil {
						rep("own.open-under-regular-file-succeeds", "Open with a base directory under a regular file succeeded")
						s.Close()
					}
					log = append(log, "Open(under regular file)")
				case 2:
					if owner != nil {
						continue // only meaningful on a free directory (otherwise the lock refuses first)
					}
					var oerr error
					var s *comet.PersistentHybridIndex
					ok := withFDLimit(1, func() { s, oerr = p.open(spellDir(rng, dir)) })
					if !ok {
						r.Inconclusive("setrlimit unavailable")
						continue
					}
					log = append(log, fmt.Sprintf("Open with directory listing failing after the lock -> err=%v", oerr))
					if oerr == nil {
						// the fault did not hit (descriptor layout): not a failed open
						s.Close()
						r.Count("ops:open-fault-did-not-hit", 1)
						continue
					}
					failedAfterLock++
					r.Count("ops:open-failed-after-lock", 1)
				}
				if !hadLock && lockPresent(dir) {
					rep("own.failed-open-leaves-lock", "a failed Open left a LOCK file behind")
					os.Remove(filepath.Join(dir, "LOCK"))
				}
				if after := dirState(dir); after != before && !(kind == 2) {
					rep("own.failed-open-modifies-directory", fmt.Sprintf("a failed Open changed the directory:\n before %s\n after  %s", before, after))
				}
				if owner == nil {
					// the directory must still be openable
					s, err := p.open(spellDir(rng, dir))
					if err != nil {
						rep("own.open-fails-after-failed-open", fmt.Sprintf("after a failed Open the next Open fails: %v", err))
						return
					}
					s.Close()
				}
			}
		}
		if r.WantSample() && ci%60 == 4 {
			l := log
			if len(l) > 12 {
				l = l[:12]
			}
			r.Sample(map[string]any{"stream": "sequence", "log_head": l})
		}
		r.Eval(refused > 0 && failedAfterLock > 0 && staleCloseWhileOwned > 0, ev.Digest(strings.Join(log, "|")))
	})

	// ------------------------------------------------------------------ races
	nr := r.Pick(40, 600)
	r.Cases("race", nr, func(ci int, rng *rand.Rand) {
		dir, err := os.MkdirTemp("", "verif-c17r-*")
		if err != nil {
			panic(err)
		}
		defer os.RemoveAll(dir)
		rep := func(sig, what string) { r.ViolationAt("race", ci, sig, what, nil) }
		if ci%2 == 1 {
			// the directory does not exist yet: every racing Open may find it missing and create it; still one owner only,
			// and what the winner owns (its LOCK, the directory itself) survives the losers' error paths
			dir = filepath.Join(dir, "not", "yet", "there")
			r.Count("races:concurrent-open-of-a-directory-that-does-not-exist-yet", 1)
		}
		// N goroutines race to open
		N := 2 + rng.IntN(7)
		var wg sync.WaitGroup
		var mu sync.Mutex
		var winners []*comet.PersistentHybridIndex
		start := make(chan struct{})
		for g := 0; g < N; g++ {
			wg.Add(1)
			go func() {
				defer wg.Done()
				<-start
				s, err := p.open(dir)
				if err == nil {
					mu.Lock()
					winners = append(winners, s)
					mu.Unlock()
				}
			}()
		}
		close(start)
		wg.Wait()
		if len(winners) != 1 {
			rep("own.concurrent-open-winners", fmt.Sprintf("%d of %d concurrent Opens succeeded (want exactly 1)", len(winners), N))
			for _, w := range winners {
				w.Close()
			}
			return
		}
		r.Count("races:concurrent-open", 1)
		s := winners[0]
		if _, err := os.Stat(filepath.Join(dir, "LOCK")); err != nil {
			rep("own.lock-missing-while-owned", fmt.Sprintf("%d Opens raced, one won, but its LOCK is not in the directory: %v", N, err))
		}
		if late, err := p.open(dir); err == nil {
			rep("own.second-open-succeeds", fmt.Sprintf("%d Opens raced and one won; an Open issued after the race succeeded as well (two owners)", N))
			late.Close()
		}
		// operations racing with Close
		ids := newIDGen(rng)
		ids.min = 1 << 24
		var docs []storeDoc
		for i := 0; i < 64; i++ {
			docs = append(docs, genStoreDoc(rng, p, ids.next(), "r"))
		}
		results := make(chan string, 256)
		var wg2 sync.WaitGroup
		go2 := func(name string, f func(i int) error) {
			wg2.Add(1)
			go func() {
				defer wg2.Done()
				defer func() {
					if p := recover(); p != nil {
						results <- fmt.Sprintf("PANIC in %s: %v", name, p)
					}
				}()
				sawErr := false
				for i := 0; i < 16; i++ {
					err := f(i)
					if err != nil {
						sawErr = true
					} else if sawErr {
						results <- name + " succeeded after it had already failed on the closing handle"
					}
					runtimeGosched()
				}
			}()
		}
		M := 1 + rng.IntN(4)
		for g := 0; g < M; g++ {
			g := g
			go2("AddWithID", func(i int) error {
				d := docs[(g*16+i)%len(docs)]
				return s.AddWithID(d.ID+uint32(g)<<8, d.Vec, d.Text, d.Meta)
			})
			go2("Search", func(i int) error { _, err := s.NewSearch().WithText("common").WithK(5).Execute(); return err })
		}
		go2("Flush", func(i int) error { return s.Flush() })
		go2("TriggerCompaction", func(i int) error { s.TriggerCompaction(); return fmt.Errorf("(no result)") })
		// 1..4 goroutines call Close at the same moment: exactly one may report success, none may panic
		closers := 1 + rng.IntN(4)
		spin := rng.IntN(50)
		closeErr := make(chan error, 1)
		closeStart := make(chan struct{})
		closeRes := make(chan string, closers)
		for c := 0; c < closers; c++ {
			go func() {
				defer func() {
					if p := recover(); p != nil {
						closeRes <- fmt.Sprintf("PANIC: %v", p)
					}
				}()
				<-closeStart
				if err := s.Close(); err != nil {
					closeRes <- "err: " + err.Error()
				} else {
					closeRes <- "nil"
				}
			}()
		}
		go func() {
			for i := 0; i < spin; i++ {
				runtimeGosched()
			}
			close(closeStart)
			nils, errs := 0, 0
			var firstErr string
			for c := 0; c < closers; c++ {
				select {
				case res := <-closeRes:
					switch {
					case res == "nil":
						nils++
					case strings.HasPrefix(res, "PANIC"):
						closeErr <- fmt.Errorf("one of %d concurrent Close calls panicked: %s", closers, strings.TrimPrefix(res, "PANIC: "))
						return
					default:
						errs++
						firstErr = res
					}
				case <-time.After(60 * time.Second):
					closeErr <- fmt.Errorf("one of %d concurrent Close calls did not return within 60 s", closers)
					return
				}
			}
			if nils != 1 {
				closeErr <- fmt.Errorf("%d concurrent Close calls: %d returned nil, %d an error (%s); exactly one must succeed", closers, nils, errs, firstErr)
				return
			}
			closeErr <- nil
		}()
		r.Count(fmt.Sprintf("races:concurrent-closers=%d", closers), 1)
		doneAll := make(chan struct{})
		go func() { wg2.Wait(); close(doneAll) }()
		select {
		case <-doneAll:
		case <-time.After(60 * time.Second):
			rep("own.ops-racing-with-close-hang", "operations racing with Close did not all return within 60 s")
			return
		}
		select {
		case err := <-closeErr:
			if err != nil {
				rep("own.close-error", fmt.Sprintf("Close racing with operations failed: %v", err))
			}
		case <-time.After(70 * time.Second):
			rep("own.close-hangs", "Close racing with operations did not return within 60 s")
			return
		}
		close(results)
		for m := range results {
			rep("own.ops-racing-with-close", m)
		}
		if lockPresent(dir) {
			rep("own.lock-left-after-close", "LOCK present after Close raced with operations")
		}
		if _, err := s.Add(docs[0].Vec, docs[0].Text, docs[0].Meta); err == nil {
			rep("own.closed-handle-op-succeeds", "Add succeeded after Close returned")
		}
		func() {
			defer func() {
				if p := recover(); p != nil {
					rep("own.closed-handle-op-panics", fmt.Sprintf("TriggerCompaction after Close panicked: %v", p))
				}
			}()
			s.TriggerCompaction()
		}()
		s2, err := p.open(dir)
		if err != nil {
			rep("own.open-fails-on-free-directory", fmt.Sprintf("Open after the racing Close failed: %v", err))
			return
		}
		s2.Close()
		r.Count("races:ops-vs-close", 1)
		r.Eval(true, ev.Digest("race", N, M, ci))
	})

	// ------------------------------------------------------------------ concurrent Close on one idle handle
	// 2..8 goroutines leave a spin barrier together and call Close: exactly one returns nil, the others an error,
	// nobody panics, the LOCK is gone and the directory can be opened again.
	ncl := r.Pick(400, 6000)
	r.Cases("concurrent-close", ncl, func(ci int, rng *rand.Rand) {
		dir, err := os.MkdirTemp("", "verif-c17k-*")
		if err != nil {
			panic(err)
		}
		defer os.RemoveAll(dir)
		rep := func(sig, what string) { r.ViolationAt("concurrent-close", ci, sig, what, nil) }
		s, err := p.open(dir)
		if err != nil {
			rep("own.open-fails-on-free-directory", err.Error())
			return
		}
		if ci%3 == 0 {
			d := genStoreDoc(rng, p, 1<<24, "k")
			s.AddWithID(d.ID, d.Vec, d.Text, d.Meta)
		}
		K := 2 + rng.IntN(7)
		var ready, goFlag atomic.Int32
		res := make(chan string, K)
		for c := 0; c < K; c++ {
			go func() {
				defer func() {
					if p := recover(); p != nil {
						res <- fmt.Sprintf("PANIC: %v", p)
					}
				}()
				ready.Add(1)
				for goFlag.Load() == 0 {
				}
				if err := s.Close(); err != nil {
					res <- "err"
				} else {
					res <- "nil"
				}
			}()
		}
		for int(ready.Load()) < K {
			runtimeGosched()
		}
		goFlag.Store(1)
		nils, errs := 0, 0
		for c := 0; c < K; c++ {
			select {
			case x := <-res:
				switch {
				case x == "nil":
					nils++
				case x == "err":
					errs++
				default:
					rep("own.concurrent-close-panics", fmt.Sprintf("one of %d concurrent Close calls panicked: %s", K, strings.TrimPrefix(x, "PANIC: ")))
					return
				}
			case <-time.After(60 * time.Second):
				rep("own.close-hangs", fmt.Sprintf("one of %d concurrent Close calls did not return within 60 s", K))
				return
			}
		}
		if nils != 1 {
			rep("own.concurrent-close-winners", fmt.Sprintf("%d concurrent Close calls: %d returned nil and %d an error; exactly one must succeed", K, nils, errs))
		}
		if lockPresent(dir) {
			rep("own.lock-left-after-close", "LOCK present after concurrent Close calls")
		}
		s2, err := p.open(dir)
		if err != nil {
			rep("own.open-fails-on-free-directory", fmt.Sprintf("Open after concurrent Close calls failed: %v", err))
			return
		}
		s2.Close()
		r.Count("races:concurrent-close-rounds", 1)
		r.Count("races:concurrent-close-calls", int64(K))
		r.Eval(true, ev.Digest("cc", K, ci%3))
	})

	// ------------------------------------------------------------------ Close while a compaction is in flight
	// The compaction is held at a point inside it; Close runs beside it and, once it has returned, the next owner opens
	// the directory. From that moment nothing the OLD handle started may change the directory any more.
	ctl := newHookCtl()
	ctl.install()
	compPoints := []string{"compact.begin", "crash:compact.create.hybrid", "crash:compact.writeto-done", "crash:compact.written", "crash:compact.added", "crash:compact.removed", "crash:delete.before"}
	ncc := r.Pick(14, 140)
	r.Cases("close-vs-compaction", ncc, func(ci int, rng *rand.Rand) {
		dir, err := os.MkdirTemp("", "verif-c17c-*")
		if err != nil {
			panic(err)
		}
		defer os.RemoveAll(dir)
		point := compPoints[ci%len(compPoints)]
		rep := func(sig, what string) { r.ViolationAt("close-vs-compaction", ci, sig, "point="+point+": "+what, nil) }
		pc := p
		pc.CompactionThreshold = 2
		s, err := pc.open(dir)
		if err != nil {
			rep("own.open-fails-on-free-directory", err.Error())
			return
		}
		ids := newIDGen(rng)
		ids.min = 1 << 24
		for seg := 0; seg < 2+rng.IntN(3); seg++ {
			for i := 0; i < 1+rng.IntN(3); i++ {
				d := genStoreDoc(rng, pc, ids.next(), "c")
				if err := s.AddWithID(d.ID, d.Vec, d.Text, d.Meta); err != nil {
					rep("own.add-error", err.Error())
				}
			}
			if err := s.Flush(); err != nil {
				rep("own.flush-error", err.Error())
			}
		}
		var mu sync.Mutex
		var closeErr error
		var stateAtHandover string
		var next *comet.PersistentHybridIndex
		var besideDone chan struct{}
		inTime := false
		ctl.resetTrace(false)
		endsBefore := ctl.count("compact.end")
		ctl.setTarget(point, 1, func(args []any) {
			it, bd := runBeside(func() {
				err := s.Close()
				var n2 *comet.PersistentHybridIndex
				if err == nil {
					n2, _ = pc.open(dir)
				}
				st := dirState(dir)
				mu.Lock()
				closeErr, next, stateAtHandover = err, n2, st
				mu.Unlock()
			}, 200*time.Millisecond)
			mu.Lock()
			inTime, besideDone = it, bd
			mu.Unlock()
		})
		s.TriggerCompaction()
		deadline := time.After(60 * time.Second)
		for !ctl.fired() {
			select {
			case <-deadline:
				ctl.clearTarget()
				s.Close()
				r.Inconclusive("compaction point not reached: " + point)
				r.Count("close-vs-compaction:point-not-reached:"+point, 1)
				return
			case <-time.After(time.Millisecond):
			}
		}
		ctl.clearTarget()
		// wait for Close (and the hand-over) to finish
		var bd chan struct{}
		for bd == nil {
			time.Sleep(time.Millisecond)
			mu.Lock()
			bd = besideDone
			mu.Unlock()
		}
		select {
		case <-bd:
		case <-time.After(60 * time.Second):
			rep("own.close-hangs", "Close beside an in-flight compaction did not return within 60 s after the compaction resumed")
			return
		}
		// let whatever the old handle still runs come to rest: until its compaction has ended, at most 2 s
		for i := 0; i < 2000 && ctl.count("compact.end") == endsBefore; i++ {
			time.Sleep(time.Millisecond)
		}
		time.Sleep(5 * time.Millisecond)
		mu.Lock()
		cerr, n2, st, inTime := closeErr, next, stateAtHandover, inTime
		mu.Unlock()
		if cerr != nil {
			rep("own.close-error", fmt.Sprintf("Close beside an in-flight compaction failed: %v", cerr))
			return
		}
		if n2 == nil {
			rep("own.open-fails-on-free-directory", "Open right after a successful Close (compaction in flight on the old handle) failed")
			return
		}
		if now := dirState(dir); now != st {
			rep("own.closed-handle-modifies-directory", fmt.Sprintf("the directory changed after Close had returned and the next owner had opened it (a compaction started by the closed handle was still running; Close returned while it was paused: %v)\n at hand-over: %s\n now:          %s", inTime, st, now))
		}
		n2.Close()
		if inTime {
			r.Count("close-vs-compaction:close-returned-while-compaction-paused", 1)
		} else {
			r.Count("close-vs-compaction:close-waited-for-compaction", 1)
		}
		r.Count("close-vs-compaction:"+point, 1)
		r.Eval(true, ev.Digest("cvc", point, ci))
	})
	// ------------------------------------------------------------------ Close while a foreground Flush is in flight
	// An explicit Flush is held at a point inside its segment write; Close runs beside it and, once it has returned nil, the
	// next owner opens the directory. From that moment nothing the OLD handle started may change the directory any more
	// (same oracle as close-vs-compaction: "a successful Close releases ownership").
	cfPoints := []string{"flush.begin", "crash:flush.create.hybrid", "crash:flush.create.vector", "crash:flush.create.text", "crash:flush.written", "crash:flush.close.hybrid", "crash:flush.added", "flush.registered"}
	r.Cases("close-vs-flush", r.Pick(16, 160), func(ci int, rng *rand.Rand) {
		dir, err := os.MkdirTemp("", "verif-c17g-*")
		if err != nil {
			panic(err)
		}
		defer os.RemoveAll(dir)
		point := cfPoints[ci%len(cfPoints)]
		rep := func(sig, what string) { r.ViolationAt("close-vs-flush", ci, sig, "point="+point+": "+what, nil) }
		s, err := p.open(dir)
		if err != nil {
			rep("own.open-fails-on-free-directory", err.Error())
			return
		}
		ids := newIDGen(rng)
		ids.min = 1 << 24
		for seg := 0; seg < rng.IntN(3); seg++ {
			d := genStoreDoc(rng, p, ids.next(), "c")
			s.AddWithID(d.ID, d.Vec, d.Text, d.Meta)
			s.Flush()
		}
		for i := 0; i < 1+rng.IntN(3); i++ {
			d := genStoreDoc(rng, p, ids.next(), "c")
			if err := s.AddWithID(d.ID, d.Vec, d.Text, d.Meta); err != nil {
				rep("own.add-error", err.Error())
			}
		}
		var mu sync.Mutex
		var closeErr error
		var stateAtHandover string
		var next *comet.PersistentHybridIndex
		var besideDone chan struct{}
		inTime := false
		ctl.resetTrace(false)
		ctl.setTarget(point, 1, func(args []any) {
			it, bd := runBeside(func() {
				err := s.Close()
				var n2 *comet.PersistentHybridIndex
				if err == nil {
					n2, _ = p.open(dir)
				}
				st := dirState(dir)
				mu.Lock()
				closeErr, next, stateAtHandover = err, n2, st
				mu.Unlock()
			}, 200*time.Millisecond)
			mu.Lock()
			inTime, besideDone = it, bd
			mu.Unlock()
		})
		flushErr := s.Flush() // returns after the pause (and after whatever Close did beside it)
		fired := ctl.fired()
		ctl.clearTarget()
		if !fired {
			s.Close()
			r.Inconclusive("flush point not reached: " + point)
			r.Count("close-vs-flush:point-not-reached:"+point, 1)
			return
		}
		mu.Lock()
		bd := besideDone
		mu.Unlock()
		select {
		case <-bd:
		case <-time.After(60 * time.Second):
			rep("own.close-hangs", "Close beside an in-flight Flush did not return within 60 s after the Flush had returned")
			return
		}
		mu.Lock()
		cerr, n2, st, it := closeErr, next, stateAtHandover, inTime
		mu.Unlock()
		if cerr != nil {
			// a Close that reports an error promises nothing about ownership; make sure the directory is not left locked for good
			s.Close()
			r.Count("close-vs-flush:close-error", 1)
			r.Eval(false, ev.Digest("cvf-err", point, ci))
			return
		}
		if n2 == nil {
			rep("own.open-fails-on-free-directory", "Open right after a successful Close (a Flush of the old handle in flight) failed")
			return
		}
		if now := dirState(dir); now != st {
			rep("own.closed-handle-modifies-directory", fmt.Sprintf("the directory changed after Close had returned nil and the next owner had opened it (an explicit Flush of the closed handle was still writing; Close returned while it was paused: %v; that Flush answered %v)\n at hand-over: %s\n now:          %s", it, flushErr, st, now))
		}
		n2.Close()
		if it {
			r.Count("close-vs-flush:close-returned-while-flush-paused", 1)
		} else {
			r.Count("close-vs-flush:close-waited-for-flush", 1)
		}
		r.Count("close-vs-flush:"+point, 1)
		r.Eval(true, ev.Digest("cvf", point, ci))
	})
	// ------------------------------------------------------------------ an Open that overlaps the release of the lock
	// Close is held between closing its lock file and removing it (lock.releasing); an Open runs beside it. Whatever that
	// Open answers, there is one owner at most afterwards: if it succeeded it owns the directory (LOCK present, every
	// further Open refused until it closes); if it was refused the directory is free once Close has returned.
	r.Cases("open-vs-release", r.Pick(12, 120), func(ci int, rng *rand.Rand) {
		dir, err := os.MkdirTemp("", "verif-c17h-*")
		if err != nil {
			panic(err)
		}
		defer os.RemoveAll(dir)
		rep := func(sig, what string) { r.ViolationAt("open-vs-release", ci, sig, what, nil) }
		s, err := p.open(dir)
		if err != nil {
			rep("own.open-fails-on-free-directory", err.Error())
			return
		}
		ids := newIDGen(rng)
		ids.min = 1 << 24
		for i := 0; i < rng.IntN(3); i++ {
			d := genStoreDoc(rng, p, ids.next(), "c")
			s.AddWithID(d.ID, d.Vec, d.Text, d.Meta)
		}
		var mu sync.Mutex
		var a *comet.PersistentHybridIndex
		var aErr error
		var besideDone chan struct{}
		nOpens := 1 + ci%3 // 1..3 opens in a row beside the paused Close: at most one of them may win
		var winners int
		ctl.resetTrace(false)
		ctl.setTarget("lock.releasing", 1, func(args []any) {
			_, bd := runBeside(func() {
				for k := 0; k < nOpens; k++ {
					h, err := p.open(dir)
					mu.Lock()
					if err == nil {
						winners++
						if a == nil {
							a = h
						} else {
							defer h.Close()
						}
					} else {
						aErr = err
					}
					mu.Unlock()
				}
			}, 300*time.Millisecond)
			mu.Lock()
			besideDone = bd
			mu.Unlock()
		})
		cerr := s.Close()
		fired := ctl.fired()
		ctl.clearTarget()
		if !fired {
			r.Inconclusive("lock.releasing not reached")
			return
		}
		mu.Lock()
		bd := besideDone
		mu.Unlock()
		select {
		case <-bd:
		case <-time.After(60 * time.Second):
			rep("own.open-hangs", "an Open beside a Close that was releasing the lock did not return within 60 s after the Close had returned")
			return
		}
		if cerr != nil {
			rep("own.close-error", fmt.Sprintf("Close failed (an Open ran while it was releasing the lock): %v", cerr))
		}
		mu.Lock()
		owner, w, lastErr := a, winners, aErr
		mu.Unlock()
		_ = lastErr
		if w > 1 {
			rep("own.second-open-succeeds", fmt.Sprintf("%d of %d Opens issued while the previous owner was releasing its lock succeeded", w, nOpens))
		}
		if owner != nil {
			r.Count("open-vs-release:overlapping-open-won", 1)
			if _, err := os.Stat(filepath.Join(dir, "LOCK")); err != nil {
				rep("own.lock-missing-while-owned", fmt.Sprintf("an Open that overlapped the previous owner's Close succeeded, but after that Close returned the directory holds no LOCK: %v", err))
			}
			if h2, err := p.open(dir); err == nil {
				rep("own.second-open-succeeds", "an Open that overlapped the previous owner's Close succeeded and is still open; the next Open succeeded as well (two owners)")
				h2.Close()
			}
			if err := owner.Close(); err != nil {
				rep("own.close-error", fmt.Sprintf("Close of the owner that had opened while the previous owner was releasing failed: %v", err))
			}
		} else {
			r.Count("open-vs-release:overlapping-open-refused", 1)
		}
		h3, err := p.open(dir)
		if err != nil {
			rep("own.open-fails-after-close", fmt.Sprintf("every handle is closed, Open fails: %v", err))
			return
		}
		h3.Close()
		if _, err := os.Stat(filepath.Join(dir, "LOCK")); err == nil {
			rep("own.lock-left-after-close", "LOCK still present after the last Close")
		}
		r.Eval(true, ev.Digest("ovr", nOpens, ci))
	})
	// ------------------------------------------------------------------ ownership lasts until Close has finished writing
	// Close persists the writable memtable before it returns. While that final segment is being written (observed at
	// the crash:flush.* points inside it) the directory is still owned: the LOCK must be there and a second Open refused.
	ffPoints := []string{"crash:flush.create.hybrid", "crash:flush.create.vector", "crash:flush.written", "crash:flush.close.hybrid", "crash:flush.added", "flush.registered", "flush.dropped"}
	r.Cases("close-final-flush", r.Pick(14, 140), func(ci int, rng *rand.Rand) {
		dir, err := os.MkdirTemp("", "verif-c17f-*")
		if err != nil {
			panic(err)
		}
		defer os.RemoveAll(dir)
		point := ffPoints[ci%len(ffPoints)]
		rep := func(sig, what string) { r.ViolationAt("close-final-flush", ci, sig, "point="+point+": "+what, nil) }
		s, err := p.open(dir)
		if err != nil {
			rep("own.open-fails-on-free-directory", err.Error())
			return
		}
		ids := newIDGen(rng)
		ids.min = 1 << 24
		if ci%2 == 1 { // an earlier segment, so the directory is not empty
			d := genStoreDoc(rng, p, ids.next(), "f")
			s.AddWithID(d.ID, d.Vec, d.Text, d.Meta)
			s.Flush()
		}
		for i := 0; i < 1+rng.IntN(4); i++ {
			d := genStoreDoc(rng, p, ids.next(), "f")
			if err := s.AddWithID(d.ID, d.Vec, d.Text, d.Meta); err != nil {
				rep("own.add-error", err.Error())
			}
		}
		var lockThere, secondOpened, reached bool
		ctl.setTarget(point, 1, func(args []any) {
			reached = true
			lockThere = lockPresent(dir)
			if s2, err := p.open(dir); err == nil {
				secondOpened = true
				s2.Close()
			}
		})
		cerr := s.Close()
		ctl.clearTarget()
		if cerr != nil {
			rep("own.close-error", cerr.Error())
			return
		}
		if !reached {
			r.Count("close-final-flush:point-not-reached:"+point, 1)
			r.Inconclusive("final flush did not pass " + point)
			return
		}
		if !lockThere {
			rep("own.lock-released-before-close-finished", "the LOCK file was already gone while Close was still writing the final segment")
		}
		if secondOpened {
			rep("own.second-open-succeeds", "a second Open succeeded while Close was still writing the final segment of the first handle")
		}
		if lockPresent(dir) {
			rep("own.lock-left-after-close", "LOCK present after Close")
		}
		r.Count("close-final-flush:"+point, 1)
		r.Eval(true, ev.Digest("cff", point, ci%2, ci))
	})
	// ------------------------------------------------------------------ a stale handle that still holds a late write
	// An Add that has passed the store's closed check is held inside the memtable queue; Close runs to completion beside
	// it; the Add resumes (acknowledged into the closed handle's memory, or refused). Whatever the old handle holds now,
	// its SECOND Close reports an error and changes nothing — with and without a new owner on the directory.
	latePoints := []string{"memq.add.picked", "memtable.add.prelock", "search.listed-memtables", "store.remove.picked"}
	r.Cases("stale-handle-late-write", r.Pick(8, 60), func(ci int, rng *rand.Rand) {
		dir, err := os.MkdirTemp("", "verif-c17l-*")
		if err != nil {
			panic(err)
		}
		defer os.RemoveAll(dir)
		point := latePoints[ci%len(latePoints)]
		withOwner := (ci/len(latePoints))%2 == 0
		rep := func(sig, what string) {
			r.ViolationAt("stale-handle-late-write", ci, sig, fmt.Sprintf("operation held at %s while Close ran, new owner=%v: %s", point, withOwner, what), nil)
		}
		s, err := p.open(dir)
		if err != nil {
			rep("own.open-fails-on-free-directory", err.Error())
			return
		}
		ids := newIDGen(rng)
		ids.min = 1 << 24
		for i := 0; i < rng.IntN(3); i++ {
			d := genStoreDoc(rng, p, ids.next(), "l")
			s.AddWithID(d.ID, d.Vec, d.Text, d.Meta)
		}
		var closeDone chan struct{}
		var closeErr error
		ctl.setTarget(point, 1, func(args []any) {
			_, closeDone = runBeside(func() { closeErr = s.Close() }, 2*time.Second)
		})
		d := genStoreDoc(rng, p, ids.next(), "late")
		var addErr error
		func() {
			defer func() {
				if pv := recover(); pv != nil {
					rep("own.ops-racing-with-close", fmt.Sprintf("PANIC in the operation that was held while Close ran: %v", pv))
					addErr = fmt.Errorf("panic")
				}
			}()
			switch point {
			case "search.listed-memtables": // a search that has listed the memtables; Close completes; it goes on to the segments
				_, addErr = s.NewSearch().WithText("common").WithK(5).Execute()
			case "store.remove.picked":
				addErr = s.Remove(d.ID)
			default:
				addErr = s.AddWithID(d.ID, d.Vec, d.Text, d.Meta)
			}
		}()
		fired := ctl.fired()
		ctl.clearTarget()
		if !fired || closeDone == nil {
			s.Close()
			r.Inconclusive("add point not reached: " + point)
			return
		}
		select {
		case <-closeDone:
		case <-time.After(60 * time.Second):
			r.Inconclusive("Close beside a held Add did not return within 60 s")
			return
		}
		if closeErr != nil {
			rep("own.close-error", closeErr.Error())
			return
		}
		if addErr == nil {
			r.Count("stale-handle-late-write:held-operation-answered-nil", 1)
		} else {
			r.Count("stale-handle-late-write:held-operation-refused", 1)
		}
		var owner *comet.PersistentHybridIndex
		if withOwner {
			if owner, err = p.open(dir); err != nil {
				rep("own.open-after-close-fails", err.Error())
				return
			}
		}
		before := dirState(dir)
		err2 := s.Close()
		if err2 == nil {
			rep("own.second-close-succeeds", "a second Close returned nil")
		}
		if after := dirState(dir); after != before {
			rep("own.second-close-modifies-directory", fmt.Sprintf("a second Close on a stale handle (held operation -> %v) changed the directory:\n before %s\n after  %s", addErr, before, after))
		}
		if owner != nil {
			owner.Close()
		}
		r.Count("stale-handle-late-write:"+point, 1)
		r.Eval(true, ev.Digest("shl", point, withOwner, ci))
	})
	ctl.uninstall()

	// ------------------------------------------------------------------ another process
	helper := os.Getenv("VERIF_HELPER")
	np := r.Pick(4, 40)
	if helper == "" {
		r.Inconclusive("VERIF_HELPER not set: multi-process ownership not exercised")
		return
	}
	r.Cases("process", np, func(ci int, rng *rand.Rand) {
		dir, err := os.MkdirTemp("", "verif-c17p-*")
		if err != nil {
			panic(err)
		}
		defer os.RemoveAll(dir)
		rep := func(sig, what string) { r.ViolationAt("process", ci, sig, what, nil) }
		if ci%2 == 0 {
			// the other process owns the directory; we must be refused and must not touch it
			cmd := exec.Command(helper, "hold", dir, "400")
			out, _ := cmd.StdoutPipe()
			if err := cmd.Start(); err != nil {
				r.Inconclusive("cannot start helper")
				return
			}
			sc := bufio.NewScanner(out)
			if !sc.Scan() || sc.Text() != "OPENED" {
				rep("own.helper-open-fails", "helper process could not open a fresh directory: "+sc.Text())
				cmd.Wait()
				return
			}
			before := dirState(dir)
			if s, err := p.open(dir); err == nil {
				rep("own.second-open-succeeds", "Open succeeded while ANOTHER PROCESS owns the directory")
				s.Close()
			} else if after := dirState(dir); after != before {
				rep("own.refused-open-modifies-directory", "a refused Open changed the directory owned by another process")
			}
			for sc.Scan() {
			}
			cmd.Wait()
			s, err := p.open(dir)
			if err != nil {
				rep("own.open-fails-on-free-directory", fmt.Sprintf("Open failed after the other process closed: %v", err))
				return
			}
			s.Close()
			r.Count("processes:other-owns", 1)
		} else {
			s, err := p.open(dir)
			if err != nil {
				rep("own.open-fails-on-free-directory", err.Error())
				return
			}
			before := dirState(dir)
			outb, _ := exec.Command(helper, "hold", dir, "10").Output()
			if strings.HasPrefix(string(outb), "OPENED") {
				rep("own.second-open-succeeds", "another process opened the directory while this process owns it")
			} else if after := dirState(dir); after != before {
				rep("own.refused-open-modifies-directory", "another process's refused Open changed the directory")
			}
			s.Close()
			r.Count("processes:we-own", 1)
		}
		r.Eval(true, ev.Digest("proc", ci))
	})
}
