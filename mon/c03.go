package mon

import (
	"fmt"
	"math"
	"math/rand/v2"
	"sort"

	"github.com/wizenheimer/comet"

	"verif/internal/ev"
)

func init() { register("C03", "exploration", runC03) }

type textOp struct {
	Op   string `json:"op"`
	ID   uint32 `json:"id,omitempty"`
	Text string `json:"text,omitempty"`
}

// checkTextAnswer compares one BM25 answer with the model (descending order, top-k of the matching set).
// exp maps each matching live document to its expected score; alt is the alternative legal expectation
// (repeated query token counted once) or nil.
func checkTextAnswer(rep reporter, tag string, got []comet.TextResult, exp map[uint32]float64, k int, allowed map[uint32]bool, r *ev.Run) bool {
	elig := map[uint32]float64{}
	for id, s := range exp {
		if allowed == nil || allowed[id] {
			elig[id] = s
		}
	}
	var sorted []float64
	for _, s := range elig {
		sorted = append(sorted, s)
	}
	sort.Sort(sort.Reverse(sort.Float64Slice(sorted)))
	if k > 0 && k < len(sorted) {
		sorted = sorted[:k]
	}
	ok := true
	fail := func(sig, what string) {
		ok = false
		if rep != nil {
			rep(sig, what)
		}
	}
	if len(got) != len(sorted) {
		fail(tag+".length", fmt.Sprintf("k=%d: %d results, model has %d matching live documents (top-k %d)", k, len(got), len(elig), len(sorted)))
		return false
	}
	seen := map[uint32]bool{}
	for i, g := range got {
		if seen[g.Id] {
			fail(tag+".duplicate-id", fmt.Sprintf("id %d twice", g.Id))
		}
		seen[g.Id] = true
		want, in := elig[g.Id]
		if !in {
			fail(tag+".non-matching-id", fmt.Sprintf("id %d returned but it is not a live matching (eligible) document", g.Id))
			continue
		}
		tol := 1e-5*math.Abs(want) + 1e-9
		if math.Abs(float64(g.Score)-want) > tol {
			fail(tag+".score", fmt.Sprintf("id %d score %g, textbook BM25 gives %g", g.Id, g.Score, want))
		} else if r != nil && rep != nil {
			r.Max("bm25_rel_err_over_tol", math.Abs(float64(g.Score)-want)/tol)
		}
		if math.Abs(float64(g.Score)-sorted[i]) > 1e-5*math.Abs(sorted[i])+1e-9 {
			fail(tag+".not-top-k", fmt.Sprintf("rank %d has score %g, the model's rank-%d score is %g", i, g.Score, i, sorted[i]))
			return false
		}
		if i > 0 && got[i].Score > got[i-1].Score {
			fail(tag+".order", "scores not descending")
		}
	}
	return ok
}

func runC03(r *ev.Run) {
	r.Rule = "case = generated history over Add(fresh id) / Add(existing live id = replace) / Remove / Flush on a corpus from a 12-30 word vocabulary (ASCII, repeated tokens, empty text, " +
		"punctuation/whitespace tokens, non-ASCII, compatibility forms); after every op 3-5 text queries x k/id-restriction variants compared with a textbook Okapi BM25 model " +
		"(N, df, avgdl over resident documents, matches over live documents) plus a metamorphic multi-query check; non-trivial = history has replace, remove and flush and >=1 probe matched documents; distinct by history digest Since the seed waves: re-add of removed ids (same or new text), replace by the same text, remove-everything-then-flush, operations on the empty index first, double Flush, held and re-executed search objects, WithCutoff prefix, long (65/150 byte) and invalid-UTF-8 tokens."
	r.Assumptions = []string{"trusted base: the UAX#29 word segmenter and NFKC tables (same third-party libraries comet uses) — the monitor checks comet's use of them and everything after",
		"open corner: a token repeated inside one query may count per occurrence or once (both accepted, counted)"}
	n := r.Pick(300, 9000)
	aggs := []comet.ScoreAggregationKind{comet.SumAggregation, comet.MaxAggregation, comet.MeanAggregation}
	r.CasesParallel("history", n, 16, func(ci int, rng *rand.Rand) {
		idx := comet.NewBM25SearchIndex()
		m := newBM25Model()
		ids := newIDGen(rng)
		tg := newTextGen(rng)
		var hist []textOp
		rep := func(sig, what string) {
			h := hist
			if len(h) > 50 {
				h = h[len(h)-50:]
			}
			r.ViolationAt("history", ci, sig, what, map[string]any{"history_tail": h})
		}
		replaces, removes, flushes, matched := 0, 0, 0, 0
		var heldS comet.TextSearch
		var heldQ string
		var heldK int
		probe := func() {
			// one long-lived search object, executed again after the index changed: the same answer as a fresh object
			// with the same configuration (scores rank by rank; ids may swap inside exact ties)
			if heldS != nil {
				a1, e1 := heldS.Execute()
				a2, e2 := idx.NewSearch().WithQuery(heldQ).WithK(heldK).Execute()
				if (e1 != nil) != (e2 != nil) || len(a1) != len(a2) {
					rep("bm25.held-search-object-differs", fmt.Sprintf("query %q k=%d: a search object executed before and again now: %d results / %v; a fresh object: %d / %v", heldQ, heldK, len(a1), e1, len(a2), e2))
					heldS = nil
				} else {
					for i := range a1 {
						if math.Float32bits(a1[i].GetScore()) != math.Float32bits(a2[i].GetScore()) {
							rep("bm25.held-search-object-differs", fmt.Sprintf("query %q k=%d: rank %d has score %g, a fresh object %g", heldQ, heldK, i, a1[i].GetScore(), a2[i].GetScore()))
							heldS = nil
							break
						}
					}
				}
				r.Count("probes:held-search-object", 1)
			}
			if heldS == nil || rng.IntN(6) == 0 {
				heldQ, heldK = tg.query(), []int{0, 1, 3, 10, 1000}[rng.IntN(5)]
				heldS = idx.NewSearch().WithQuery(heldQ).WithK(heldK)
				heldS.Execute()
			}
			nq := 3 + rng.IntN(3)
			queries := make([]string, nq)
			for qi := range queries {
				queries[qi] = tg.query()
			}
			for _, q := range queries {
				exp := m.scores(q, true)
				var alt map[uint32]float64
				if hasRepeatedToken(q) {
					alt = m.scores(q, false)
				}
				nm := len(exp)
				if nm > 0 {
					matched++
				}
				for _, k := range []int{0, []int{-1, 1, 2, nm - 1, nm, nm + 1}[rng.IntN(6)]} {
					var allowed map[uint32]bool
					var docIDs []uint32
					if rng.IntN(3) == 0 {
						allowed = map[uint32]bool{}
						for _, id := range m.liveIDs() {
							if rng.IntN(2) == 0 {
								allowed[id] = true
								docIDs = append(docIDs, id)
							}
						}
						for _, id := range sortedKeys(m.removed) {
							allowed[id] = true
							docIDs = append(docIDs, id)
						}
						a := ids.absent()
						allowed[a] = true
						docIDs = append(docIDs, a)
					}
					s := idx.NewSearch().WithQuery(q).WithK(k)
					if docIDs != nil {
						s = s.WithDocumentIDs(docIDs...)
					}
					got, err := s.Execute()
					if err != nil {
						rep("bm25.search-error", fmt.Sprintf("query %q: %v", q, err))
						continue
					}
					if rng.IntN(5) == 0 {
						// the same search object executed again gives the same answer (scores rank by rank; ids may swap
						// inside exact ties)
						again, err := s.Execute()
						if err != nil || len(again) != len(got) {
							rep("bm25.reexecute-differs", fmt.Sprintf("query %q k=%d: second Execute of the same search object: %d results / err=%v, first %d", q, k, len(again), err, len(got)))
						} else {
							for i := range again {
								if math.Float32bits(again[i].GetScore()) != math.Float32bits(got[i].GetScore()) {
									rep("bm25.reexecute-differs", fmt.Sprintf("query %q k=%d: second Execute has score %g at rank %d, first %g", q, k, again[i].GetScore(), i, got[i].GetScore()))
									break
								}
							}
						}
						r.Count("probes:re-executed-search-object", 1)
					}
					if rng.IntN(6) == 0 {
						// autocut (WithCutoff): a prefix of the same search without it, by scores (ties at equal scores
						// may come in either order), for every cutoff value; -1 = disabled = the same answer
						c := []int{-1, 0, 1, 2, 3, 5, -2, -7}[rng.IntN(8)]
						s2 := idx.NewSearch().WithQuery(q).WithK(k).WithCutoff(c)
						if docIDs != nil {
							s2 = s2.WithDocumentIDs(docIDs...)
						}
						gc, err := s2.Execute()
						switch {
						case err != nil:
							rep("bm25.search-error", fmt.Sprintf("query %q cutoff=%d: %v", q, c, err))
						case len(gc) > len(got) || (c == -1 && len(gc) != len(got)):
							rep("bm25.cutoff-not-a-prefix", fmt.Sprintf("query %q k=%d cutoff=%d: %d results, without autocut %d", q, k, c, len(gc), len(got)))
						default:
							for i := range gc {
								if math.Float32bits(gc[i].GetScore()) != math.Float32bits(got[i].GetScore()) {
									rep("bm25.cutoff-not-a-prefix", fmt.Sprintf("query %q k=%d cutoff=%d: rank %d has score %g, without autocut %g", q, k, c, i, gc[i].GetScore(), got[i].GetScore()))
									break
								}
							}
						}
						r.Count("probes:with-cutoff", 1)
					}
					tag := "bm25"
					if alt != nil {
						// open corner: accept either counting of a repeated query token
						if checkTextAnswer(nil, tag, got, exp, k, allowed, r) || checkTextAnswer(nil, tag, got, alt, k, allowed, r) {
							r.Count("probes:open-corner-repeated-query-token", 1)
							continue
						}
					}
					checkTextAnswer(func(sig, what string) {
						rep(sig, fmt.Sprintf("query %q k=%d restricted=%v: %s", q, k, docIDs != nil, what))
					}, tag, got, exp, k, allowed, r)
					r.Count("probes:single", 1)
				}
			}
			// multi-query: expected = rule applied to the model's per-query top-k answers. The implementation's
			// own tie-breaking at the k-th place is map-order dependent, so a per-query boundary tie (or a query
			// with a repeated token, the open corner) makes the expectation ambiguous: soundness only.
			if rng.IntN(2) == 0 {
				nmq := 2 + rng.IntN(2)
				qs := make([]string, nmq)
				for i := range qs {
					// prefer queries without a repeated token (whitespace repeats in any 3-word query)
					for try := 0; try < 6; try++ {
						qs[i] = tg.word()
						if rng.IntN(2) == 0 {
							qs[i] += " " + tg.word()
						}
						if !hasRepeatedToken(qs[i]) {
							break
						}
					}
				}
				k := []int{0, 1, 2, 3, 5}[rng.IntN(5)]
				rule := aggs[rng.IntN(3)]
				var per [][]comet.VectorResult
				ambiguous := false
				union := map[uint32]bool{}
				for _, q := range qs {
					if hasRepeatedToken(q) {
						ambiguous = true
					}
					exp := m.scores(q, true)
					type kv struct {
						id uint32
						s  float64
					}
					var l []kv
					for id, sc := range exp {
						l = append(l, kv{id, sc})
						union[id] = true
					}
					sort.Slice(l, func(a, b int) bool { return l[a].s > l[b].s })
					if k > 0 && k < len(l) {
						if math.Abs(l[k-1].s-l[k].s) <= 1e-5*math.Abs(l[k].s)+1e-9 {
							ambiguous = true
						}
						l = l[:k]
					}
					vr := make([]comet.VectorResult, len(l))
					for i, x := range l {
						vr[i] = comet.VectorResult{Node: *comet.NewVectorNodeWithID(x.id, nil), Score: float32(x.s)}
					}
					per = append(per, vr)
				}
				got, err := idx.NewSearch().WithQuery(qs...).WithK(k).WithScoreAggregation(rule).Execute()
				if err != nil {
					rep("bm25.search-error", fmt.Sprintf("multi-query: %v", err))
				} else if ambiguous {
					seen := map[uint32]bool{}
					for _, g := range got {
						if !union[g.Id] || seen[g.Id] {
							rep("bm25.multi.foreign-or-duplicate-id", fmt.Sprintf("queries %q: id %d is not a live matching document of any query (or repeated)", qs, g.Id))
						}
						seen[g.Id] = true
					}
					if k > 0 && len(got) > k {
						rep("bm25.multi.length", fmt.Sprintf("queries %q: %d results for k=%d", qs, len(got), k))
					}
					r.Count("probes:multi-query-ambiguous(soundness only)", 1)
				} else {
					checkMultiText(func(sig, what string) { rep(sig, fmt.Sprintf("queries %q k=%d: %s", qs, k, what)) }, rule, per, got, k)
					r.Count("probes:multi-query", 1)
				}
			}
		}
		if ci%4 == 1 {
			// the first operations on a fresh, EMPTY index: search, Flush, Remove of an unknown id
			probe()
			idx.Flush()
			idx.Remove(ids.absent())
			probe()
			r.Count("cases:started-with-operations-on-the-empty-index", 1)
		}
		nOps := 10 + rng.IntN(60)
		lastText := map[uint32]string{}
		// every twelfth case starts from several hundred documents (posting lists, length statistics and heaps well
		// beyond the handful of documents of the ordinary histories), some of them removed and flushed again
		if ci%12 == 5 {
			nb := 300 + rng.IntN(500)
			for i := 0; i < nb; i++ {
				id, text := ids.next(), tg.doc()
				if err := idx.Add(id, text); err != nil {
					rep("bm25.add-error", err.Error())
				}
				m.add(id, text)
				lastText[id] = text
			}
			live := m.liveIDs()
			for i := 0; i < nb/10; i++ {
				id := live[rng.IntN(len(live))]
				idx.Remove(id)
				m.remove(id)
			}
			if rng.IntN(2) == 0 {
				idx.Flush()
				m.flush()
			}
			hist = append(hist, textOp{fmt.Sprintf("bulk: %d documents, %d removals", nb, nb/10), 0, ""})
			r.Count("cases:bulk-start", 1)
			nOps = 6 + rng.IntN(8)
			probe()
		}
		for op := 0; op < nOps; op++ {
			c := rng.IntN(10)
			switch {
			case c < 4 || len(m.live) == 0:
				id, text := ids.next(), tg.doc()
				hist = append(hist, textOp{"add", id, text})
				if err := idx.Add(id, text); err != nil {
					rep("bm25.add-error", err.Error())
				}
				m.add(id, text)
				lastText[id] = text
				r.Count("ops:add", 1)
			case c < 6:
				live := m.liveIDs()
				id, text := live[rng.IntN(len(live))], tg.doc()
				if rng.IntN(4) == 0 {
					text = lastText[id] // replaced by the very same text
					r.Count("ops:replace-with-unchanged-text", 1)
				}
				lastText[id] = text
				hist = append(hist, textOp{"replace", id, text})
				if err := idx.Add(id, text); err != nil {
					rep("bm25.add-error", err.Error())
				}
				m.add(id, text)
				replaces++
				r.Count("ops:replace", 1)
			case c < 8:
				live := m.liveIDs()
				id := live[rng.IntN(len(live))]
				hist = append(hist, textOp{"remove", id, ""})
				if err := idx.Remove(id); err != nil {
					rep("bm25.remove-error", err.Error())
				}
				m.remove(id)
				removes++
				r.Count("ops:remove", 1)
				if rng.IntN(3) == 0 {
					// update = remove + add of the same id while its tombstone is still pending, with new or the same text
					text := tg.doc()
					if rng.IntN(2) == 0 {
						text = lastText[id]
						r.Count("ops:re-add-with-unchanged-text", 1)
					}
					probe()
					hist = append(hist, textOp{"re-add", id, text})
					if err := idx.Add(id, text); err != nil {
						rep("bm25.add-error", "re-add of a removed id: "+err.Error())
					}
					m.add(id, text)
					lastText[id] = text
					r.Count("ops:re-add-removed-id", 1)
				}
			case c < 9:
				hist = append(hist, textOp{"flush", 0, ""})
				if err := idx.Flush(); err != nil {
					rep("bm25.flush-error", err.Error())
				}
				m.flush()
				flushes++
				r.Count("ops:flush", 1)
				if rng.IntN(3) == 0 { // idempotent
					if err := idx.Flush(); err != nil {
						rep("bm25.flush-error", "second Flush in a row: "+err.Error())
					}
					hist = append(hist, textOp{"flush", 0, ""})
					r.Count("ops:flush-twice-in-a-row", 1)
				}
			default:
				if rng.IntN(4) == 0 && len(m.live) > 0 {
					// EVERY document is removed and the removals are flushed in one go: the index is empty again
					// (statistics included), whatever is added afterwards starts from zero
					for _, id := range m.liveIDs() {
						idx.Remove(id)
						m.remove(id)
					}
					idx.Flush()
					m.flush()
					hist = append(hist, textOp{"remove-everything+flush", 0, ""})
					removes++
					flushes++
					r.Count("ops:remove-everything-then-flush", 1)
					break
				}
				id := ids.absent()
				hist = append(hist, textOp{"remove-absent", id, ""})
				idx.Remove(id) // BM25 Remove never reports; it must simply change nothing
				r.Count("ops:remove-absent", 1)
			}
			probe()
		}
		if r.WantSample() && ci%40 == 0 {
			h := hist
			if len(h) > 10 {
				h = h[:10]
			}
			r.Sample(map[string]any{"ops": len(hist), "history_head": h})
		}
		r.Eval(replaces > 0 && removes > 0 && flushes > 0 && matched > 0, ev.Digest(len(hist), fmt.Sprint(hist[:min(len(hist), 4)]), ci))
	})
}

// checkMultiText is checkMultiQuery for the text modality (descending).
func checkMultiText(rep reporter, rule comet.ScoreAggregationKind, per [][]comet.VectorResult, got []comet.TextResult, k int) {
	ids, sortedAsc := aggregateExpected(rule, per, 0)
	sorted := append([]float64(nil), sortedAsc...)
	sort.Sort(sort.Reverse(sort.Float64Slice(sorted)))
	if k > 0 && k < len(sorted) {
		sorted = sorted[:k]
	}
	if len(got) != len(sorted) {
		rep("bm25.multi.length", fmt.Sprintf("%s: %d results, aggregate of the single answers has %d", rule, len(got), len(sorted)))
		return
	}
	seen := map[uint32]bool{}
	for i, g := range got {
		if seen[g.Id] {
			rep("bm25.multi.duplicate-id", fmt.Sprintf("id %d twice", g.Id))
		}
		seen[g.Id] = true
		want, ok := ids[g.Id]
		if !ok {
			rep("bm25.multi.foreign-id", fmt.Sprintf("id %d is in no single-query answer", g.Id))
			continue
		}
		if math.Abs(float64(g.Score)-want) > 1e-5*math.Abs(want)+1e-9 {
			rep("bm25.multi.score", fmt.Sprintf("%s: id %d combined %g, rule gives %g", rule, g.Id, g.Score, want))
		}
		if math.Abs(float64(g.Score)-sorted[i]) > 1e-5*math.Abs(sorted[i])+1e-9 {
			rep("bm25.multi.not-top-k", fmt.Sprintf("%s: rank %d score %g expected %g", rule, i, g.Score, sorted[i]))
			return
		}
		if i > 0 && got[i].Score > got[i-1].Score {
			rep("bm25.multi.order", "multi-query answer not descending")
		}
	}
}
