package mon

import (
	"fmt"
	"math/rand/v2"
	"os"

	"verif/internal/ev"
)

// runC16Segments is the store half of C16: a directory with one intact segment (marker A) and one damaged segment
// (marker B). For each of the component files of B every byte prefix (and the missing file) is tried: no B document
// may be returned by any modality, every A document must be.
func runC16Segments(r *ev.Run) {
	nCases := r.Pick(3, 24)
	r.Cases("segments", nCases, func(ci int, rng *rand.Rand) {
		p := storeParams{VecKind: "flat", Text: true, Meta: true, Dim: 2 + rng.IntN(3), Metric: allMetrics[rng.IntN(3)], CompactionThreshold: 1000,
			MemtableSizeLimit: 1 << 20, FlushThreshold: 1 << 40}
		switch ci % 4 {
		case 1:
			p.Meta = false
		case 2:
			p.Text, p.Meta = false, false
		case 3:
			p.VecKind = ""
		}
		comps := []string{"hybrid"}
		if p.VecKind != "" {
			comps = append(comps, "vector")
		}
		if p.Text {
			comps = append(comps, "text")
		}
		if p.Meta {
			comps = append(comps, "metadata")
		}
		dir, err := os.MkdirTemp("", "verif-c16seg-*")
		if err != nil {
			panic(err)
		}
		defer os.RemoveAll(dir)
		rep := func(sig, what string, extra map[string]any) {
			w := map[string]any{"params": p.String()}
			for k, v := range extra {
				w[k] = v
			}
			r.ViolationAt("segments", ci, sig, p.String()+": "+what, w)
		}
		s, err := p.open(dir)
		if err != nil {
			rep("c16.segment.open-error", err.Error(), nil)
			return
		}
		ids := newIDGen(rng)
		ids.min = 1 << 24
		A, B, ever := map[uint32]bool{}, map[uint32]bool{}, map[uint32]bool{}
		for _, grp := range []map[uint32]bool{A, B} {
			for i := 0; i < 2+rng.IntN(4); i++ {
				d := genStoreDoc(rng, p, ids.next(), "x")
				if err := s.AddWithID(d.ID, d.Vec, d.Text, d.Meta); err != nil {
					rep("c16.segment.add-error", err.Error(), nil)
					s.Close()
					return
				}
				grp[d.ID], ever[d.ID] = true, true
			}
			if err := s.Flush(); err != nil {
				rep("c16.segment.flush-error", err.Error(), nil)
				s.Close()
				return
			}
		}
		segs := s.VerifSegmentIDs()
		s.Close()
		if len(segs) != 2 {
			rep("c16.segment.setup", fmt.Sprintf("expected 2 segments, have %v", segs), nil)
			return
		}
		segB := segs[0]
		if segs[1] > segB {
			segB = segs[1]
		}
		base, err := readImage(dir)
		if err != nil {
			panic(err)
		}
		tried := 0
		for _, c := range comps {
			name := fmt.Sprintf("%s_%06d.bin.gz", c, segB)
			full := base[name]
			// n = -1: file missing; 0: empty; 1..len-1: truncated
			for n := -1; n < len(full); n++ {
				img := base.with(name, nil)
				if n < 0 {
					delete(img, name)
				} else {
					img[name] = full[:n]
				}
				idir, err := os.MkdirTemp("", "verif-c16img-*")
				if err != nil {
					panic(err)
				}
				func() {
					defer os.RemoveAll(idir)
					img.materialise(idir)
					what := fmt.Sprintf("%s cut to %d of %d bytes", name, n, len(full))
					if n < 0 {
						what = name + " missing"
					}
					wit := map[string]any{"damaged_file": name, "kept_bytes": n, "full_bytes": len(full)}
					rs, err := p.open(idir)
					if err != nil {
						rep("c16.segment.open-fails", what+": Open failed: "+err.Error(), wit)
						return
					}
					defer rs.Close()
					for pass := 0; pass < 2; pass++ {
						a := searchAllModalities(rs, p)
						if a.Err != nil {
							rep("c16.segment.search-fails", what+": "+a.Err.Error(), wit)
							return
						}
						for mod, got := range map[string]map[uint32]bool{"vector": a.Vec, "text": a.Text, "metadata": a.Meta} {
							if got == nil {
								continue
							}
							nb := 0
							for id := range B {
								if got[id] {
									nb++
								}
							}
							if nb > 0 {
								sig := "c16.segment.damaged-segment-contributes"
								if n >= len(full)-8 && c == comps[len(comps)-1] {
									sig += ".last-component-cut-inside-gzip-trailer"
								}
								rep(sig, fmt.Sprintf("%s: %d of %d documents of the damaged segment are returned by the %s query (search #%d)", what, nb, len(B), mod, pass+1), wit)
								return
							}
							for id := range A {
								if !got[id] {
									rep("c16.segment.intact-segment-lost", fmt.Sprintf("%s: document %d of the intact segment is missing from the %s query", what, id, mod), wit)
									return
								}
							}
							for id := range got {
								if !ever[id] {
									rep("c16.segment.never-added-id", fmt.Sprintf("%s: id %d was never added", what, id), wit)
									return
								}
							}
						}
					}
				}()
				tried++
			}
		}
		r.Count("segment-damage-images-opened", int64(tried))
		r.Count("segment-cases", 1)
		r.Eval(true, ev.Digest("seg", p.String(), tried, ci))
	})
}
