package mon

import "verif/internal/ev"

// runC16Segments is the store half of C16 (damaged segment files); filled in with the store monitors.
func runC16Segments(r *ev.Run) {}
