package mon

import (
	"fmt"
	"math"
	"math/rand/v2"
	"os"
	"sort"

	"github.com/wizenheimer/comet"

	"verif/internal/ev"
)

func init() { register("C12", "exploration", runC12) }

var debugC12 = os.Getenv("VERIF_DEBUG") != ""

// hnswReach does a BFS over bottom-layer edges from the entry point. traverseDeleted says whether
// tombstoned vertices may be walked through.
func hnswReach(g comet.VerifHNSWGraphState, traverseDeleted bool) map[uint32]bool {
	del := map[uint32]bool{}
	for _, d := range g.Deleted {
		del[d] = true
	}
	seen := map[uint32]bool{}
	if _, ok := g.Nodes[g.EntryPoint]; !ok {
		return seen
	}
	if del[g.EntryPoint] && !traverseDeleted {
		return seen
	}
	queue := []uint32{g.EntryPoint}
	seen[g.EntryPoint] = true
	for len(queue) > 0 {
		u := queue[0]
		queue = queue[1:]
		n := g.Nodes[u]
		if len(n.Edges) == 0 {
			continue
		}
		for _, w := range n.Edges[0] {
			if seen[w] {
				continue
			}
			if _, ok := g.Nodes[w]; !ok {
				continue
			}
			if del[w] && !traverseDeleted {
				continue
			}
			seen[w] = true
			queue = append(queue, w)
		}
	}
	return seen
}

// classifyUnreachable explains one unreachable live vertex u on the graph itself.
func classifyUnreachable(g comet.VerifHNSWGraphState, dist comet.Distance, u uint32, unreachable map[uint32]bool, flushHappened bool) string {
	nu := g.Nodes[u]
	if len(nu.Edges) == 0 || len(nu.Edges[0]) == 0 {
		return "hnsw.unreachable.isolated-vertex"
	}
	full := 2 * g.M
	for _, w := range nu.Edges[0] {
		nw, ok := g.Nodes[w]
		if !ok {
			return "hnsw.unreachable.dangling-edge"
		}
		if unreachable[w] {
			continue
		}
		dwu := dist.Calculate(nw.Vector, nu.Vector)
		var maxd float32
		for _, x := range nw.Edges[0] {
			if x == u {
				return "hnsw.unreachable.bfs-inconsistent" // w is reachable and links to u: cannot be unreachable
			}
			if nx, ok := g.Nodes[x]; ok {
				if d := dist.Calculate(nw.Vector, nx.Vector); d > maxd {
					maxd = d
				}
			}
		}
		if float64(maxd) > float64(dwu)*(1+1e-6) {
			if debugC12 {
				fmt.Printf("DEBUG classify u=%d w=%d d(w,u)=%g maxd=%g len(w.edges)=%d full=%d u.level=%d w.level=%d flush=%v u.edges=%v w.edges=%v\n", u, w, dwu, maxd, len(nw.Edges[0]), full, nu.Level, nw.Level, flushHappened, nu.Edges[0], nw.Edges[0])
			}
			return "hnsw.unreachable.dropped-although-closer-than-a-kept-neighbour"
		}
		if len(nw.Edges[0]) < full && !flushHappened {
			return "hnsw.unreachable.neighbour-with-room-does-not-link-back"
		}
	}
	return "hnsw.orphaned-by-nearest-M-pruning"
}

// flushChangedSurvivingEdges compares the layer-0 adjacency before and after a Flush: for every vertex that survives,
// its old list restricted to surviving vertices must be its new list (as a set). Returns the first difference.
func flushChangedSurvivingEdges(before, after comet.VerifHNSWGraphState) (uint32, string) {
	ids := make([]uint32, 0, len(after.Nodes))
	for id := range after.Nodes {
		ids = append(ids, id)
	}
	sort.Slice(ids, func(i, j int) bool { return ids[i] < ids[j] })
	for _, w := range ids {
		ob, ok := before.Nodes[w]
		if !ok {
			continue
		}
		oldSet := map[uint32]bool{}
		if len(ob.Edges) > 0 {
			for _, x := range ob.Edges[0] {
				if _, survives := after.Nodes[x]; survives {
					oldSet[x] = true
				}
			}
		}
		newSet := map[uint32]bool{} // (edges a Flush ADDS cannot cut anything off: not looked at)
		if na := after.Nodes[w]; len(na.Edges) > 0 {
			for _, x := range na.Edges[0] {
				newSet[x] = true
			}
		}
		for x := range oldSet {
			if !newSet[x] {
				return w, fmt.Sprintf("(the Flush removed edge %d->%d although both vertices survive it)", w, x)
			}
		}
	}
	return 0, ""
}

func runC12(r *ev.Run) {
	r.Rule = "case = (M in 2..32, ef, dim 1..32, metric, Add/Remove/Flush history with adversarial removal targets read from the graph: entry point, first inserted, highest level, hubs, all neighbours of the entry point). " +
		"Stream 'exact': <=2M resident vectors, efC/efS >= 2M: every answer must equal exact k-NN (complete listing vs float64 model + restricted probes). " +
		"Stream 'graph': up to 300 (quick) / 3000 (thorough) vertices: after every op a default search must be non-empty while a live vector exists; in states without pending soft deletes every live vertex " +
		"must be BFS-reachable from the entry point over layer-0 edges (read via the accessor) and a k=n, ef>=n search must return every live id; each unreachable vertex is classified on the graph. " +
		"non-trivial = history contains a removal of the current entry point (exact) / graph has > 2M+1 vertices (graph); distinct by (params, history digest)"
	r.Assumptions = []string{"graph read through a read-only accessor under the index's own read lock at quiescent points",
		"reachability is asserted only in states with no pending soft delete (add-only prefixes, right after Flush)"}
	nExact := r.Pick(400, 8000)
	r.CasesParallel("exact", nExact, 16, func(ci int, rng *rand.Rand) {
		metric := allMetrics[rng.IntN(3)]
		M := []int{2, 3, 4, 8, 16, 32}[rng.IntN(6)]
		dim := 1 + rng.IntN(32)
		if rng.IntN(2) == 0 {
			dim = 1 + rng.IntN(3)
		}
		efC := 2*M + rng.IntN(4*M)
		efS := 2*M + rng.IntN(4*M)
		idx, err := comet.NewHNSWIndex(dim, metric, M, efC, efS)
		if err != nil {
			r.ViolationAt("exact", ci, "hnsw.constructor", err.Error(), nil)
			return
		}
		params := fmt.Sprintf("dim=%d M=%d efC=%d efS=%d", dim, M, efC, efS)
		outliers := metric != comet.Cosine && ci%5 == 3
		m := newVecModel(metric, dim)
		ids := newIDGen(rng)
		vg := newVecGen(rng, dim)
		var hist []histOp
		rep := func(sig, what string) {
			h := hist
			if len(h) > 40 {
				h = h[len(h)-40:]
			}
			r.ViolationAt("exact", ci, sig, fmt.Sprintf("hnsw %s %s: %s", metric, params, what), map[string]any{"metric": metric, "params": params, "history_tail": h})
		}
		entryRemovals := 0
		var firstInserted uint32
		var held *heldSearch
		probe := func() {
			// a long-lived search object (efSearch beyond the regime), executed while the index changes under it
			if held == nil || rng.IntN(8) == 0 {
				held = newHeldSearch(func() comet.VectorSearch { return idx.NewSearch().WithEfSearch(2*M + 50) })
				hq := vg.query()
				held.step("WithQuery", func(x comet.VectorSearch) comet.VectorSearch { return x.WithQuery(cloneF32(hq)) })
			} else {
				heldSearchStep(rng, held, vg.query(), m.liveIDs(), len(m.live))
			}
			if !held.compare(rep, "hnsw") {
				held = nil
			}
			r.Count("probes:held-search-object", 1)
			g := comet.VerifHNSWGraph(idx)
			entryDeleted := false
			for _, d := range g.Deleted {
				if d == g.EntryPoint {
					entryDeleted = true
				}
			}
			suffix := ""
			if entryDeleted {
				suffix = ".entry-point-soft-deleted"
			}
			for qi := 0; qi < 1+rng.IntN(2); qi++ {
				q := vg.query()
				// clause 1: default search non-empty while a live vector exists
				res, err := idx.NewSearch().WithQuery(cloneF32(q)).Execute()
				if err != nil {
					rep("hnsw.search-error", err.Error())
					continue
				}
				if len(m.live) > 0 && len(res) == 0 {
					rep("hnsw.empty-result"+suffix, fmt.Sprintf("unrestricted search returned nothing while %d live vectors exist", len(m.live)))
				}
				// clause 2: exact
				all, err := idx.NewSearch().WithQuery(cloneF32(q)).WithK(0).Execute()
				if err != nil {
					rep("hnsw.search-error", err.Error())
					continue
				}
				full := toListing(all)
				bad := false
				checkListing(func(sig, what string) {
					bad = true
					rep(sig+suffix, what)
				}, "hnsw.exact", full, m.live, m.live, func(id uint32) (float64, float64) {
					d := trueDist(metric, q, m.raw[id])
					if l := l2ref(q, m.raw[id]); l*l > 1e39 {
						// far beyond what a float32 sum of squares can hold: the reported distance is +Inf (outlier cases)
						return math.Inf(1), math.Inf(1)
					}
					return d, distTol(metric, dim, d)
				}, r)
				r.Count("probes:exact-regime-complete", 1)
				if bad {
					continue
				}
				for _, v := range genVariants(rng, full, m, ids, 3) {
					x := idx.NewSearch().WithQuery(cloneF32(q))
					if rng.IntN(3) == 0 {
						x = x.WithEfSearch(2*M + rng.IntN(50))
					}
					got, err := applyOpts(x, v).Execute()
					if err != nil {
						rep("hnsw.search-error", err.Error())
						continue
					}
					checkVariant(func(sig, what string) { rep(sig+suffix, what) }, "hnsw.exact.variant", full, got, v)
					r.Count("probes:restricted", 1)
				}
			}
		}
		if ci%6 == 3 {
			// directed prelude, the smallest update history there is: a lone vector is removed, another arrives while the
			// tombstone is pending, the first comes back under its own id (same vector or a new one), the other leaves
			do := func(op string, id uint32, v []float32) bool {
				hist = append(hist, histOp{Op: op, ID: id, Vec: cloneF32(v)})
				var err error
				if v != nil {
					err = idx.Add(*comet.NewVectorNodeWithID(id, cloneF32(v)))
					m.add(id, v)
				} else {
					err = idx.Remove(*comet.NewVectorNodeWithID(id, nil))
					m.remove(id)
				}
				if err != nil {
					rep("hnsw.prelude-error", op+": "+err.Error())
					return false
				}
				probe()
				return true
			}
			a, b := ids.next(), ids.next()
			va, vb := vg.fresh(), vg.fresh()
			va2 := va
			if rng.IntN(3) == 0 {
				va2 = vg.fresh()
			}
			if !(do("add", a, va) && do("remove", a, nil) && do("add", b, vb) && do("re-add", a, va2) && do("remove", b, nil)) {
				return
			}
			r.Count("ops:prelude-lone-vector-removed-and-brought-back", 1)
		}
		nOps := 10 + rng.IntN(50)
		for op := 0; op < nOps; op++ {
			c := rng.IntN(10)
			switch {
			case (c < 5 || len(m.live) == 0) && len(m.resident) < 2*M:
				id, v := ids.next(), vg.fresh()
				if outliers && rng.IntN(4) == 0 {
					// a legal, finite vector so far out that its squared distance to everything else overflows float32:
					// it is reported at distance +Inf, and it is a live vector like any other
					v = cloneF32(v)
					v[rng.IntN(dim)] = float32(1+rng.IntN(5)) * 1e20 * float32(1-2*rng.IntN(2))
					r.Count("ops:add-outlier-at-infinite-distance", 1)
				}
				hist = append(hist, histOp{Op: "add", ID: id, Vec: cloneF32(v)})
				if err := idx.Add(*comet.NewVectorNodeWithID(id, cloneF32(v))); err != nil {
					rep("hnsw.add-error", err.Error())
					return
				}
				if len(m.resident) == 0 {
					firstInserted = id
				}
				m.add(id, v)
				r.Count("ops:add", 1)
			case c < 8 && len(m.live) > 0:
				g := comet.VerifHNSWGraph(idx)
				live := m.liveIDs()
				id := live[rng.IntN(len(live))]
				what := "random"
				switch rng.IntN(5) {
				case 0:
					if m.live[g.EntryPoint] {
						id, what = g.EntryPoint, "entry-point"
					}
				case 1:
					if m.live[firstInserted] {
						id, what = firstInserted, "first-inserted"
					}
				case 2:
					best := -1
					for _, l := range live {
						if g.Nodes[l].Level > best {
							best, id = g.Nodes[l].Level, l
						}
					}
					what = "highest-level"
				}
				if id == g.EntryPoint {
					entryRemovals++
					r.Count("ops:remove-entry-point", 1)
				}
				hist = append(hist, histOp{Op: "remove(" + what + ")", ID: id})
				if err := idx.Remove(*comet.NewVectorNodeWithID(id, nil)); err != nil {
					rep("hnsw.remove-error", err.Error())
				}
				m.remove(id)
				r.Count("ops:remove", 1)
				if id == g.EntryPoint && rng.IntN(2) == 0 {
					// the removed entry point comes straight back under the same id (an update of the oldest document),
					// before any Flush
					v := vg.fresh()
					if old, ok := m.raw[id]; ok && rng.IntN(2) == 0 {
						v = cloneF32(old) // the very same vector again
						r.Count("ops:re-add-with-the-identical-vector", 1)
					}
					hist = append(hist, histOp{Op: "re-add(entry-point)", ID: id})
					if err := idx.Add(*comet.NewVectorNodeWithID(id, cloneF32(v))); err != nil {
						rep("hnsw.add-error", "re-adding the removed entry point: "+err.Error())
						return
					}
					m.add(id, v)
					r.Count("ops:re-add-removed-entry-point", 1)
				} else if rng.IntN(3) == 0 {
					// a REFUSED Remove (the id just removed, or one never added) changes nothing - in particular it leaves
					// no tombstone behind that a later Flush would count
					rid := id
					if rng.IntN(2) == 0 {
						rid = ids.absent()
					}
					hist = append(hist, histOp{Op: "remove-refused", ID: rid})
					if err := idx.Remove(*comet.NewVectorNodeWithID(rid, nil)); err == nil {
						rep("hnsw.remove-absent-succeeds", fmt.Sprintf("Remove(%d) of a removed / unknown id returned nil", rid))
					}
					r.Count("ops:remove-refused", 1)
				}
			case c == 9 && len(m.live) > 0 && len(m.live) <= 6:
				// remove every live vector (no Flush), then bring one back: a removed id (update) or a fresh one
				live := m.liveIDs()
				for _, id := range live {
					hist = append(hist, histOp{Op: "remove(all)", ID: id})
					if err := idx.Remove(*comet.NewVectorNodeWithID(id, nil)); err != nil {
						rep("hnsw.remove-error", err.Error())
					}
					m.remove(id)
				}
				probe()
				id, v := live[rng.IntN(len(live))], vg.fresh()
				if rng.IntN(3) == 0 && len(m.resident) < 2*M {
					id = ids.next()
				}
				hist = append(hist, histOp{Op: "add-after-removing-everything", ID: id, Vec: cloneF32(v)})
				if err := idx.Add(*comet.NewVectorNodeWithID(id, cloneF32(v))); err != nil {
					rep("hnsw.add-error", err.Error())
					return
				}
				m.add(id, v)
				r.Count("ops:add-after-removing-everything", 1)
			case c == 7 && len(m.removed) > 0 && len(m.resident) < 2*M:
				// update: re-add a removed id (its tombstone may still be pending)
				rm := sortedKeys(m.removed)
				id, v := rm[rng.IntN(len(rm))], vg.fresh()
				if old, ok := m.raw[id]; ok && rng.IntN(2) == 0 {
					v = cloneF32(old) // the very same vector again (an "undelete")
					r.Count("ops:re-add-with-the-identical-vector", 1)
				}
				hist = append(hist, histOp{Op: "re-add", ID: id, Vec: cloneF32(v)})
				if err := idx.Add(*comet.NewVectorNodeWithID(id, cloneF32(v))); err != nil {
					rep("hnsw.add-error", err.Error())
					return
				}
				m.add(id, v)
				r.Count("ops:re-add-removed-id", 1)
			case c == 8 || len(m.resident) >= 2*M:
				hist = append(hist, histOp{Op: "flush"})
				if err := idx.Flush(); err != nil {
					rep("hnsw.flush-error", err.Error())
				}
				m.flush()
				r.Count("ops:flush", 1)
				if len(m.resident) >= 2*M && len(m.live) > 0 {
					// still full after the flush: make room so the history can go on inside the regime
					live := m.liveIDs()
					id := live[rng.IntN(len(live))]
					hist = append(hist, histOp{Op: "remove", ID: id})
					idx.Remove(*comet.NewVectorNodeWithID(id, nil))
					m.remove(id)
					hist = append(hist, histOp{Op: "flush"})
					idx.Flush()
					m.flush()
				}
			default:
				continue
			}
			probe()
		}
		if r.WantSample() && ci%100 == 0 {
			h := hist
			if len(h) > 8 {
				h = h[:8]
			}
			r.Sample(map[string]any{"stream": "exact", "metric": metric, "params": params, "history_head": h})
		}
		r.Eval(entryRemovals > 0, ev.Digest("exact", metric, params, len(hist), ci))
	})

	// ------------------------------------------------------------------ graph stream
	nGraph := r.Pick(120, 1500)
	maxN := r.Pick(300, 3000)
	r.CasesParallel("graph", nGraph, 16, func(ci int, rng *rand.Rand) {
		metric := allMetrics[rng.IntN(3)]
		M := []int{2, 3, 4, 8, 16, 32}[rng.IntN(6)]
		dim := 1 + rng.IntN(32)
		if rng.IntN(3) == 0 {
			dim = 1 + rng.IntN(3)
		}
		var idx *comet.HNSWIndex
		var err error
		def := rng.IntN(3) == 0
		if def {
			dm, dc, ds := comet.DefaultHNSWConfig()
			M = dm
			idx, err = comet.NewHNSWIndex(dim, metric, dm, dc, ds)
		} else {
			ef := M + rng.IntN(8*M)
			idx, err = comet.NewHNSWIndex(dim, metric, M, ef, ef)
		}
		if err != nil {
			r.ViolationAt("graph", ci, "hnsw.constructor", err.Error(), nil)
			return
		}
		dist, _ := comet.NewDistance(metric)
		target := 2*M + 2 + rng.IntN(maxN-2*M-1)
		if rng.IntN(3) > 0 {
			target = 2*M + 2 + rng.IntN(min(maxN, 120)-2*M+10)
		}
		params := fmt.Sprintf("dim=%d M=%d default=%v target=%d", dim, M, def, target)
		m := newVecModel(metric, dim)
		ids := newIDGen(rng)
		vg := newVecGen(rng, dim)
		vg.mode = 0
		var hist []histOp
		rep := func(sig, what string) {
			h := hist
			if len(h) > 12 {
				h = h[len(h)-12:]
			}
			hh := make([]histOp, len(h))
			for i := range h {
				hh[i] = histOp{Op: h[i].Op, ID: h[i].ID}
			}
			r.ViolationAt("graph", ci, sig, fmt.Sprintf("hnsw %s %s: %s", metric, params, what), map[string]any{"metric": metric, "params": params, "ops": len(hist), "history_tail": hh})
		}
		flushHappened := false
		removalsOnly := false
		pending := 0
		classified := map[uint32]bool{}
		checkNonEmpty := func() {
			if len(m.live) == 0 {
				return
			}
			q := vg.query()
			res, err := idx.NewSearch().WithQuery(cloneF32(q)).Execute()
			if err != nil {
				rep("hnsw.search-error", err.Error())
				return
			}
			r.Count("probes:non-empty", 1)
			if len(res) == 0 {
				g := comet.VerifHNSWGraph(idx)
				sig := "hnsw.empty-result"
				for _, d := range g.Deleted {
					if d == g.EntryPoint {
						sig += ".entry-point-soft-deleted"
					}
				}
				// if live vertices are cut off from the entry point even when tombstones may be walked
				// through, the empty answer is a consequence of the fragmentation, not of tombstone handling
				rt := hnswReach(g, true)
				for id := range m.live {
					if !rt[id] {
						sig = "hnsw.empty-result.graph-fragmented"
						break
					}
				}
				rep(sig, fmt.Sprintf("unrestricted search returned nothing while %d live vectors exist", len(m.live)))
			}
			for _, x := range res {
				if !m.live[x.GetId()] {
					rep("hnsw.non-live-id", fmt.Sprintf("id %d returned but it is removed or was never added", x.GetId()))
				}
			}
		}
		var flushPrev *comet.VerifHNSWGraphState // the graph right before the Flush being judged
		flushWhy := ""
		checkReach := func(before map[uint32]bool) {
			flushWhy = ""
			if pending > 0 || len(m.live) == 0 {
				return
			}
			g := comet.VerifHNSWGraph(idx)
			reach := hnswReach(g, false)
			unreach := map[uint32]bool{}
			for id := range m.live {
				if !reach[id] {
					unreach[id] = true
				}
			}
			r.Count("invariant:reachability-checks", 1)
			r.Count("graph-vertices-checked", int64(len(m.live)))
			r.Count("graph-vertices-unreachable", int64(len(unreach)))
			for _, id := range sortedKeys(unreach) {
				if classified[id] {
					continue
				}
				classified[id] = true
				// The local criterion is sharp only while no Flush has thinned any neighbour list: afterwards a
				// neighbour may legitimately have room, or keep farther vertices added into freed room.
				var sig string
				switch {
				case before != nil && before[id]:
					sig = "hnsw.unreachable.cut-off-by-flush"
					// the recorded defect is that Flush deletes the tombstoned vertices and their edges WITHOUT repairing
					// anything; a Flush that also changes edges between two surviving vertices is something else
					if flushPrev != nil {
						if w, why := flushChangedSurvivingEdges(*flushPrev, g); why != "" {
							sig = "hnsw.unreachable.flush-changed-edges-between-surviving-vertices"
							_ = w
							flushWhy = why
						}
					}
				case flushHappened:
					sig = "hnsw.unreachable.in-graph-thinned-by-earlier-flush"
				default:
					sig = classifyUnreachable(g, dist, id, unreach, false)
				}
				rep(sig, fmt.Sprintf("live vertex %d (of %d) is not reachable from entry point %d over layer-0 edges; %d unreachable in total %s", id, len(m.live), g.EntryPoint, len(unreach), flushWhy))
			}
			// corroboration through the public API: k = n, ef >= n must return every reachable live id
			if len(m.live) <= 400 || rng.IntN(4) == 0 {
				q := vg.query()
				res, err := idx.NewSearch().WithQuery(cloneF32(q)).WithK(0).WithEfSearch(len(g.Nodes) + 10).Execute()
				if err != nil {
					rep("hnsw.search-error", err.Error())
					return
				}
				got := map[uint32]bool{}
				for _, x := range res {
					got[x.GetId()] = true
				}
				// Observation only: the search descends through upper layers and edges are directed, so
				// "returned by a k=n, ef>=n search" is neither implied by nor implies layer-0 reachability from
				// the entry point. In the un-fragmented case both agree; the counts make that visible.
				for id := range m.live {
					if reach[id] && !got[id] {
						r.Count("observed:bfs-reachable-but-not-returned-by-full-ef-search", 1)
					}
					if !reach[id] && got[id] {
						r.Count("observed:returned-by-search-but-not-bfs-reachable", 1)
					}
				}
				if len(unreach) == 0 {
					r.Count("probes:full-ef-search-on-connected-graph", 1)
					for id := range m.live {
						if !got[id] {
							r.Count("observed:connected-graph-but-id-not-returned", 1)
						}
					}
				}
			}
		}
		_ = removalsOnly
		// checkReachPending: the same invariant while soft deletes are pending and no Flush has run yet. Tombstoned
		// vertices stay in the graph until Flush and searches walk through them, so "reachable" here means reachable over
		// layer-0 edges THROUGH tombstones. A live vertex u that is cut off is explained by u itself and by every
		// cut-off vertex x (live or tombstoned) that still has a path to u: had x kept its incoming link, u would be
		// reachable. The local criterion is sharp here because no neighbour list has been thinned yet.
		checkReachPending := func() {
			if flushHappened || pending == 0 || len(m.live) == 0 {
				return
			}
			g := comet.VerifHNSWGraph(idx)
			reach := hnswReach(g, true)
			unreach := map[uint32]bool{}
			anyLive := false
			for id := range g.Nodes {
				if !reach[id] {
					unreach[id] = true
					if m.live[id] {
						anyLive = true
					}
				}
			}
			r.Count("invariant:reachability-checks-with-pending-deletes", 1)
			if !anyLive {
				return
			}
			rev := map[uint32][]uint32{}
			for x := range unreach {
				if n := g.Nodes[x]; len(n.Edges) > 0 {
					for _, w := range n.Edges[0] {
						if unreach[w] {
							rev[w] = append(rev[w], x)
						}
					}
				}
			}
			sigOf := map[uint32]string{}
			for _, u := range sortedKeys(unreach) {
				if !m.live[u] || classified[u] {
					continue
				}
				classified[u] = true
				seen := map[uint32]bool{u: true}
				queue := []uint32{u}
				sig, via := "", u
				for len(queue) > 0 {
					x := queue[0]
					queue = queue[1:]
					sx, ok := sigOf[x]
					if !ok {
						sx = classifyUnreachable(g, dist, x, unreach, false)
						sigOf[x] = sx
					}
					if sig == "" || (sig == "hnsw.orphaned-by-nearest-M-pruning" && sx != sig) {
						sig, via = sx, x
					}
					back := append([]uint32(nil), rev[x]...)
					sort.Slice(back, func(i, j int) bool { return back[i] < back[j] })
					for _, y := range back {
						if !seen[y] {
							seen[y] = true
							queue = append(queue, y)
						}
					}
				}
				if sig == "hnsw.unreachable.isolated-vertex" && via == u {
					// insertion links a newcomer to the LIVE vertices it finds from the entry point; when earlier cut-offs
					// left no live vertex in the entry point's component it finds none (this check runs after every add,
					// so the graph is the one the insertion saw plus u itself)
					liveReachable := 0
					for id := range m.live {
						if reach[id] {
							liveReachable++
						}
					}
					if liveReachable == 0 {
						sig = "hnsw.unreachable.isolated-vertex.no-live-vertex-reachable-when-inserted"
					}
				}
				how := ""
				if via != u {
					how = fmt.Sprintf(" (through cut-off vertex %d, soft-deleted=%v, which still has a path to it)", via, !m.live[via])
				}
				rep(sig, fmt.Sprintf("with %d soft deletes pending and no Flush so far, live vertex %d (of %d) is not reachable from entry point %d over layer-0 edges even through tombstones%s; %d resident vertices unreachable", pending, u, len(m.live), g.EntryPoint, how, len(unreach)))
			}
		}
		// afterOp (graphs up to 400 vertices): reachability through tombstones is recomputed after EVERY operation and every
		// loss is attributed to the operation that caused it, whatever flushes came before:
		//  - an Add can only take in-links away by pruning an over-full neighbour list: for every vertex x that was reachable
		//    before the Add and is not after it, each vertex w that dropped its edge w->x must now hold a FULL list (2M) of
		//    vertices none of which is farther from w than x (then the loss is the recorded nearest-M orphaning);
		//  - the vertex just inserted is judged by the local criterion, which is sharp for it in any state (its back-links
		//    are created by this very Add and removed only by pruning an over-full list);
		//  - a Remove only sets a tombstone, so it may not change reachability through tombstones at all;
		//  - losses caused by a Flush are judged by checkReach (cut-off-by-flush).
		perOp := target <= 400
		var prevG comet.VerifHNSWGraphState
		var prevReach map[uint32]bool
		has := func(l []uint32, x uint32) bool {
			for _, y := range l {
				if y == x {
					return true
				}
			}
			return false
		}
		e0 := func(n comet.VerifHNSWNode) []uint32 {
			if len(n.Edges) == 0 {
				return nil
			}
			return n.Edges[0]
		}
		afterOp := func(kind string, newID uint32) {
			if !perOp {
				return
			}
			g := comet.VerifHNSWGraph(idx)
			reach := hnswReach(g, true)
			defer func() { prevG, prevReach = g, reach }()
			if prevReach == nil || kind == "flush" {
				return
			}
			r.Count("invariant:per-op-reachability-checks", 1)
			var lost []uint32
			anyLive := false
			for x := range prevG.Nodes {
				if _, still := g.Nodes[x]; still && prevReach[x] && !reach[x] {
					lost = append(lost, x)
					if m.live[x] {
						anyLive = true
					}
				}
			}
			sort.Slice(lost, func(i, j int) bool { return lost[i] < lost[j] })
			if anyLive {
				sig, why := "hnsw.orphaned-by-nearest-M-pruning", ""
				if kind == "remove" {
					sig, why = "hnsw.unreachable.caused-by-remove", "a Remove only sets a tombstone"
				} else {
					for _, x := range lost {
						nx := g.Nodes[x]
						ws := make([]uint32, 0, len(prevG.Nodes))
						for w := range prevG.Nodes {
							ws = append(ws, w)
						}
						sort.Slice(ws, func(i, j int) bool { return ws[i] < ws[j] })
						for _, w := range ws {
							if !has(e0(prevG.Nodes[w]), x) {
								continue
							}
							nw, ok := g.Nodes[w]
							if !ok || has(e0(nw), x) {
								continue
							}
							// w dropped x during this Add
							dwx := dist.Calculate(nw.Vector, nx.Vector)
							if len(e0(nw)) < 2*g.M {
								sig, why = "hnsw.unreachable.neighbour-with-room-does-not-link-back", fmt.Sprintf("vertex %d dropped its edge to %d although its list holds %d < %d entries", w, x, len(e0(nw)), 2*g.M)
								break
							}
							for _, y := range e0(nw) {
								if ny, ok := g.Nodes[y]; ok {
									if d := dist.Calculate(nw.Vector, ny.Vector); float64(d) > float64(dwx)*(1+1e-6) {
										sig, why = "hnsw.unreachable.dropped-although-closer-than-a-kept-neighbour", fmt.Sprintf("vertex %d dropped its edge to %d (distance %g, soft-deleted=%v) but keeps %d at distance %g", w, x, dwx, !m.live[x], y, d)
										break
									}
								}
							}
							if why != "" {
								break
							}
						}
						if why != "" {
							break
						}
					}
				}
				var liveLost []uint32
				for _, x := range lost {
					if m.live[x] && !classified[x] {
						classified[x] = true
						liveLost = append(liveLost, x)
					}
				}
				if len(liveLost) > 0 {
					rep(sig, fmt.Sprintf("the %s of %d made %d live vertices unreachable from entry point %d (through tombstones), e.g. %v; %s", kind, newID, len(liveLost), g.EntryPoint, head(liveLost, 4), why))
				}
			}
			if kind == "add" && m.live[newID] && !reach[newID] && !classified[newID] {
				classified[newID] = true
				unreach := map[uint32]bool{}
				liveReachable := 0
				for x := range g.Nodes {
					if !reach[x] {
						unreach[x] = true
					} else if m.live[x] {
						liveReachable++
					}
				}
				sig := classifyUnreachable(g, dist, newID, unreach, false)
				if sig == "hnsw.unreachable.isolated-vertex" && liveReachable == 0 {
					sig = "hnsw.unreachable.isolated-vertex.no-live-vertex-reachable-when-inserted"
				}
				rep(sig, fmt.Sprintf("vertex %d is unreachable from entry point %d (through tombstones) right after its own insertion; %d resident vertices unreachable, %d live reachable", newID, g.EntryPoint, len(unreach), liveReachable))
			}
		}
		step := 0
		for len(m.resident) < target && step < 4*target {
			step++
			c := rng.IntN(20)
			switch {
			case c < 16 || len(m.live) < 3:
				id, v := ids.next(), vg.fresh()
				hist = append(hist, histOp{Op: "add", ID: id})
				if err := idx.Add(*comet.NewVectorNodeWithID(id, cloneF32(v))); err != nil {
					rep("hnsw.add-error", err.Error())
					return
				}
				m.add(id, v)
				afterOp("add", id)
				if len(m.resident)%16 == 0 || len(m.resident) < 3*M {
					checkReach(nil)
				}
				if !perOp {
					checkReachPending()
				}
			case c < 19:
				// adversarial removals chosen on the graph
				g := comet.VerifHNSWGraph(idx)
				live := m.liveIDs()
				targets := []uint32{live[rng.IntN(len(live))]}
				what := "random"
				switch rng.IntN(5) {
				case 0:
					if m.live[g.EntryPoint] {
						targets, what = []uint32{g.EntryPoint}, "entry-point"
					}
				case 1:
					// all bottom-layer neighbours of the entry point
					if n, ok := g.Nodes[g.EntryPoint]; ok && len(n.Edges) > 0 {
						targets = nil
						for _, w := range n.Edges[0] {
							if m.live[w] {
								targets = append(targets, w)
							}
						}
						what = "all-neighbours-of-entry-point"
					}
				case 2:
					// highest in-degree hub
					indeg := map[uint32]int{}
					for _, n := range g.Nodes {
						if len(n.Edges) > 0 {
							for _, w := range n.Edges[0] {
								indeg[w]++
							}
						}
					}
					sort.Slice(live, func(a, b int) bool {
						if indeg[live[a]] != indeg[live[b]] {
							return indeg[live[a]] > indeg[live[b]]
						}
						return live[a] < live[b]
					})
					targets, what = live[:1+rng.IntN(min(3, len(live)))], "hubs"
				case 3:
					best := -1
					for _, l := range live {
						if g.Nodes[l].Level > best {
							best = g.Nodes[l].Level
							targets = []uint32{l}
						}
					}
					what = "highest-level"
				}
				if len(targets) >= len(m.live) {
					targets = targets[:len(m.live)-1]
				}
				for _, id := range targets {
					hist = append(hist, histOp{Op: "remove(" + what + ")", ID: id})
					if err := idx.Remove(*comet.NewVectorNodeWithID(id, nil)); err != nil {
						rep("hnsw.remove-error", err.Error())
					}
					m.remove(id)
					pending++
					r.Count("ops:remove:"+what, 1)
					afterOp("remove", id)
				}
			default:
				var before map[uint32]bool
				if pending > 0 {
					if !perOp {
						checkReachPending()
					}
					gb := comet.VerifHNSWGraph(idx)
					flushPrev = &gb
					before = hnswReach(gb, true)
				}
				hist = append(hist, histOp{Op: "flush"})
				if err := idx.Flush(); err != nil {
					rep("hnsw.flush-error", err.Error())
				}
				m.flush()
				if pending > 0 {
					flushHappened = true
				}
				pending = 0
				r.Count("ops:flush", 1)
				checkReach(before)
				flushPrev = nil
				afterOp("flush", 0)
			}
			if step%4 == 0 || pending > 0 {
				checkNonEmpty()
			}
		}
		if pending > 0 {
			if !perOp {
				checkReachPending()
			}
			gb := comet.VerifHNSWGraph(idx)
			flushPrev = &gb
			before := hnswReach(gb, true)
			idx.Flush()
			m.flush()
			pending = 0
			flushHappened = true
			hist = append(hist, histOp{Op: "flush"})
			checkReach(before)
		} else {
			checkReach(nil)
		}
		checkNonEmpty()
		if r.WantSample() && ci%60 == 1 {
			r.Sample(map[string]any{"stream": "graph", "metric": metric, "params": params, "ops": len(hist), "final_live": len(m.live)})
		}
		r.Count("graphs", 1)
		r.Eval(len(m.live) > 2*M+1, ev.Digest("graph", metric, params, len(hist), ci))
	})
	// Stream 'soak': ONE small index (never more than three resident vectors, M=32, ef=64: far inside the exact regime)
	// lives through tens of thousands of operations — the hundred-thousandth operation on an index is held to the same
	// answer as the first. One cycle: Add(B), Remove(A) (the entry point, left pending), Add(C), search (exactly {B, C}),
	// Remove(B), Flush. The cases differ in how many searches precede the cycles, so that whatever a long-lived index
	// counts per traversal (generation stamps, pooled scratch state) meets every operation of the cycle in every phase.
	r.CasesParallel("soak", 3, 3, func(ci int, rng *rand.Rand) {
		const dim = 2
		metric := []comet.DistanceKind{comet.L2Squared, comet.Euclidean, comet.Cosine}[ci%3]
		idx, err := comet.NewHNSWIndex(dim, metric, 32, 64, 64)
		if err != nil {
			r.ViolationAt("soak", ci, "hnsw.constructor", err.Error(), nil)
			return
		}
		vec := func() []float32 { return []float32{float32(rng.NormFloat64()) + 3, float32(rng.NormFloat64()) + 3} }
		next := uint32(1)
		add := func() (uint32, bool) {
			id := next
			next++
			if err := idx.Add(*comet.NewVectorNodeWithID(id, vec())); err != nil {
				r.ViolationAt("soak", ci, "hnsw.add-error", fmt.Sprintf("operation #%d: Add(%d): %v", next, id, err), nil)
				return id, false
			}
			return id, true
		}
		a, ok := add()
		if !ok {
			return
		}
		q := vec()
		for i := 0; i < ci; i++ {
			idx.NewSearch().WithQuery(cloneF32(q)).WithK(0).Execute()
		}
		cycles := r.Pick(50000, 150000)
		for c := 0; c < cycles; c++ {
			b, ok1 := add()
			errA := idx.Remove(*comet.NewVectorNodeWithID(a, nil))
			cc, ok2 := add()
			if !ok1 || !ok2 {
				return
			}
			res, err := idx.NewSearch().WithQuery(cloneF32(q)).WithK(0).Execute()
			got := vecToSet(res)
			if err != nil || errA != nil || len(res) != 2 || !got[b] || !got[cc] {
				r.ViolationAt("soak", ci, "hnsw.exact.missing-live-id", fmt.Sprintf("hnsw %s M=32 ef=64, cycle %d (about %d operations on this index): after Add(%d), Remove(%d) -> %v, Add(%d) a complete search returned %v (err %v), the live vectors are [%d %d]", metric, c, 6*c, b, a, errA, cc, sortedKeys(got), err, b, cc), nil)
				return
			}
			if err := idx.Remove(*comet.NewVectorNodeWithID(b, nil)); err != nil {
				r.ViolationAt("soak", ci, "hnsw.remove-error", fmt.Sprintf("cycle %d: Remove(%d) of a live vector: %v", c, b, err), nil)
				return
			}
			if err := idx.Flush(); err != nil {
				r.ViolationAt("soak", ci, "hnsw.flush-error", err.Error(), nil)
				return
			}
			a = cc
		}
		r.Count("soak:cycles", int64(cycles))
		r.Count("soak:operations-on-one-index", int64(6*cycles))
		r.Eval(true, ev.Digest("soak", ci, cycles))
	})
}
