package mon

import (
	"crypto/sha256"
	"fmt"
	"math/rand/v2"
	"os"
	"os/exec"
	"path/filepath"
	"sort"
	"strings"
	"sync"
	"time"

	"verif/internal/ev"
)

func init() { register("C10", "fault_enumeration", runC10) }

// dirImage is the content of a store directory (without LOCK) at one instant.
type dirImage map[string][]byte

func readImage(dir string) (dirImage, error) {
	ents, err := os.ReadDir(dir)
	if err != nil {
		return nil, err
	}
	img := dirImage{}
	for _, e := range ents {
		if e.IsDir() || e.Name() == "LOCK" {
			continue
		}
		b, err := os.ReadFile(filepath.Join(dir, e.Name()))
		if err != nil {
			if os.IsNotExist(err) {
				continue
			}
			return nil, err
		}
		img[e.Name()] = b
	}
	return img, nil
}

func (img dirImage) digest() string {
	names := make([]string, 0, len(img))
	for n := range img {
		names = append(names, n)
	}
	sort.Strings(names)
	h := sha256.New()
	for _, n := range names {
		fmt.Fprintf(h, "%s:%x;", n, sha256.Sum256(img[n]))
	}
	return fmt.Sprintf("%x", h.Sum(nil))
}

func (img dirImage) with(name string, content []byte) dirImage {
	out := make(dirImage, len(img))
	for k, v := range img {
		out[k] = v
	}
	out[name] = content
	return out
}

func (img dirImage) materialise(dir string) error {
	if err := os.MkdirAll(dir, 0o755); err != nil {
		return err
	}
	for n, b := range img {
		if err := os.WriteFile(filepath.Join(dir, n), b, 0o644); err != nil {
			return err
		}
	}
	return nil
}

func (img dirImage) maxID() uint64 {
	var m uint64
	for n := range img {
		if id, ok := segmentIDOf(n); ok && id > m {
			m = id
		}
	}
	return m
}

// crashVariant is one crash image to be reopened.
type crashVariant struct {
	img    dirImage
	origin string // hook point (+ synthesised truncation)
}

// segDamaged: is any component of segment seg in img missing or a strict prefix of its final content?
func segDamaged(img dirImage, final dirImage, seg uint64, comps []string) bool {
	for _, c := range comps {
		name := fmt.Sprintf("%s_%06d.bin.gz", c, seg)
		b, ok := img[name]
		if !ok || len(b) < len(final[name]) {
			return true
		}
	}
	return false
}

func runC10(r *ev.Run) {
	r.Rule = "case = history with 0-3 completed flushes (their documents are the durable set) followed by ONE interrupted operation: a Flush of further documents, or a compaction. The hook handler copies the directory at every crash:* point " +
		"(after each create x4, after WriteTo, after each gzip close x4, after add-to-manager, compaction written/added/removed, before every file removal) = one image per file-operation boundary; for every file that is not yet complete at a boundary " +
		"the engine additionally emits EVERY byte prefix between its size at the boundary and its final size (files here are < 4 KiB), one file at a time. Every distinct image is reopened with fresh templates (LOCK removed): Open and one query per modality must succeed, " +
		"every durable document must be found, no never-added id may appear, a segment with a missing / empty / truncated component must contribute nothing, an intact new segment all or nothing, and a new flush must use an id larger than every id in the image's file names. " +
		"non-trivial = image taken at a boundary strictly inside the interrupted operation with >=1 durable document; distinct by image digest Since the seed waves: a second clean restart on every boundary image (and every fifth prefix image in the quick tier), reopen -> compaction -> restart -> flush id check on a fresh copy, rotation before completed flushes, ack-then-crash also reopens after a clean Close."
	r.Assumptions = []string{"process death keeps what reached the page cache: a crash image is the directory content at that instant (no power-loss / fsync semantics, which the property does not cover)",
		"files are written strictly sequentially, so every intermediate on-disk state of a file is a prefix of its final content"}
	nCases := r.Pick(8, 60)
	ctl := newHookCtl()
	ctl.install()
	defer ctl.uninstall()
	var exhaustive = true
	r.Cases("crash", nCases, func(ci int, rng *rand.Rand) {
		p := storeParams{VecKind: "flat", Text: true, Meta: true, Dim: 2 + rng.IntN(3), Metric: allMetrics[rng.IntN(3)], CompactionThreshold: 2,
			MemtableSizeLimit: []int64{1, 900, 1 << 20}[rng.IntN(3)], FlushThreshold: 1 << 40}
		switch ci % 4 {
		case 1:
			p.Text = false
		case 2:
			p.Meta = false
		case 3:
			p.VecKind = ""
		}
		compaction := ci%3 == 2
		comps := []string{"hybrid"}
		if p.VecKind != "" {
			comps = append(comps, "vector")
		}
		if p.Text {
			comps = append(comps, "text")
		}
		if p.Meta {
			comps = append(comps, "metadata")
		}
		dir, err := os.MkdirTemp("", "verif-c10-*")
		if err != nil {
			panic(err)
		}
		defer os.RemoveAll(dir)
		desc := fmt.Sprintf("%s interrupted=%s", p, map[bool]string{false: "flush", true: "compaction"}[compaction])
		var log []string
		rep := func(sig, what string, extra map[string]any) {
			w := map[string]any{"params": desc, "log": log}
			for k, v := range extra {
				w[k] = v
			}
			r.ViolationAt("crash", ci, sig, desc+": "+what, w)
		}
		s, err := p.open(dir)
		if err != nil {
			rep("crash.open-error", err.Error(), nil)
			return
		}
		ids := newIDGen(rng)
		ids.min = 1 << 24
		ever := map[uint32]bool{}
		durable := map[uint32]bool{}
		docSegs := map[uint32]map[uint64]bool{}
		nFlush := rng.IntN(4)
		if compaction {
			nFlush = 2 + rng.IntN(2)
		}
		for f := 0; f < nFlush; f++ {
			before := s.VerifSegmentIDs()
			for i := 0; i < 1+rng.IntN(3); i++ {
				d := genStoreDoc(rng, p, ids.next(), fmt.Sprintf("f%d", f))
				if err := s.AddWithID(d.ID, d.Vec, d.Text, d.Meta); err != nil {
					rep("crash.add-error", err.Error(), nil)
					s.Close()
					return
				}
				ever[d.ID] = true
				durable[d.ID] = true
			}
			if rng.IntN(3) == 0 || (f == nFlush-1 && ci%2 == 0) {
				s.VerifRotate() // empty writable + frozen unflushed memtable (what Train() or a rejected oversized Add leave behind)
				r.Count("completed-flushes-with-the-writable-memtable-already-rotated-out", 1)
			}
			if err := s.Flush(); err != nil {
				rep("crash.flush-error", err.Error(), nil)
				s.Close()
				return
			}
			b := segSet(before)
			for _, seg := range s.VerifSegmentIDs() {
				if b[seg] {
					continue
				}
				docs, err := loadSegmentDocs(dir, seg, p)
				if err != nil {
					rep("crash.segment-unreadable-after-flush", err.Error(), nil)
					s.Close()
					return
				}
				for id := range docs {
					if docSegs[id] == nil {
						docSegs[id] = map[uint64]bool{}
					}
					docSegs[id][seg] = true
				}
			}
			log = append(log, fmt.Sprintf("completed flush %d -> segments %v", f, s.VerifSegmentIDs()))
		}
		pendingDocs := map[uint32]bool{}
		if !compaction {
			for i := 0; i < 1+rng.IntN(4); i++ {
				d := genStoreDoc(rng, p, ids.next(), "pend")
				if err := s.AddWithID(d.ID, d.Vec, d.Text, d.Meta); err != nil {
					rep("crash.add-error", err.Error(), nil)
					s.Close()
					return
				}
				ever[d.ID] = true
				pendingDocs[d.ID] = true
			}
		}
		// ---- run the interrupted operation with snapshots at every crash:* boundary ----
		type snap struct {
			point string
			img   dirImage
		}
		var snaps []snap
		var smu sync.Mutex
		obs := func(point string, args []any) {
			if !strings.HasPrefix(point, "crash:") {
				return
			}
			img, err := readImage(dir)
			if err != nil {
				return
			}
			smu.Lock()
			snaps = append(snaps, snap{fmt.Sprintf("%s#%d", point, len(snaps)), img})
			smu.Unlock()
		}
		ctl.mu.Lock()
		ctl.observers = []func(string, []any){obs}
		ctl.mu.Unlock()
		segsBefore := s.VerifSegmentIDs()
		if compaction {
			err = s.VerifCompactNow()
		} else {
			err = s.Flush()
		}
		ctl.mu.Lock()
		ctl.observers = nil
		ctl.mu.Unlock()
		if err != nil {
			rep("crash.operation-error", err.Error(), nil)
			s.Close()
			return
		}
		segsAfter := s.VerifSegmentIDs()
		final, _ := readImage(dir)
		s.Close()
		log = append(log, fmt.Sprintf("interrupted op ran to completion: segments %v -> %v, %d boundaries", segsBefore, segsAfter, len(snaps)))
		// new segments and their documents (from the completed run)
		newSegDocs := map[uint64]map[uint32]bool{}
		bset := segSet(segsBefore)
		for _, seg := range segsAfter {
			if !bset[seg] {
				docs, err := loadSegmentDocs(dir, seg, p)
				if err != nil {
					rep("crash.segment-unreadable-after-flush", err.Error(), nil)
					return
				}
				newSegDocs[seg] = docs
			}
		}
		consumed := map[uint64]bool{}
		aset := segSet(segsAfter)
		for _, seg := range segsBefore {
			if !aset[seg] {
				consumed[seg] = true
			}
		}
		if len(snaps) == 0 {
			r.Inconclusive("no crash boundary reached")
			return
		}
		// ---- build the image list: every boundary + every prefix of every in-flight file ----
		seen := map[string]bool{}
		var variants []crashVariant
		addVar := func(img dirImage, origin string) {
			d := img.digest()
			if seen[d] {
				return
			}
			seen[d] = true
			variants = append(variants, crashVariant{img, origin})
		}
		for _, sn := range snaps {
			addVar(sn.img, sn.point)
			for name, b := range sn.img {
				fin, ok := final[name]
				if !ok {
					continue // deleted later (compaction): whole-file states only
				}
				if len(b) >= len(fin) {
					continue
				}
				step := 1
				if len(fin) > 4096 {
					step = len(fin) / 512
					exhaustive = false
				}
				for n := len(b); n < len(fin); n += step {
					addVar(sn.img.with(name, fin[:n]), fmt.Sprintf("%s+%s[:%d/%d]", sn.point, name, n, len(fin)))
				}
			}
		}
		// ---- reopen every image ----
		for vi, v := range variants {
			idir, err := os.MkdirTemp("", "verif-c10img-*")
			if err != nil {
				panic(err)
			}
			func() {
				defer os.RemoveAll(idir)
				if err := v.img.materialise(idir); err != nil {
					panic(err)
				}
				wit := func() map[string]any {
					files := map[string]int{}
					for n, b := range v.img {
						files[n] = len(b)
					}
					return map[string]any{"image_origin": v.origin, "image_files(bytes)": files}
				}
				rs, err := p.open(idir)
				if err != nil {
					rep("crash.reopen-fails", fmt.Sprintf("image %s: Open failed: %v", v.origin, err), wit())
					return
				}
				defer rs.Close()
				var a storeAnswers
				if vi%4 == 1 {
					// the first searches after the restart arrive together (an application serving requests): every segment,
					// damaged ones included, is loaded for the first time by several searches at once
					const G = 3
					as := make([]storeAnswers, G)
					panics := make([]any, G)
					var wg sync.WaitGroup
					for g := 0; g < G; g++ {
						wg.Add(1)
						go func(g int) {
							defer wg.Done()
							defer func() { panics[g] = recover() }()
							as[g] = searchAllModalities(rs, p)
						}(g)
					}
					wg.Wait()
					for g := 0; g < G; g++ {
						if panics[g] != nil {
							rep("crash.search-panics", fmt.Sprintf("image %s: one of %d simultaneous first searches panicked: %v", v.origin, G, panics[g]), wit())
							return
						}
						if as[g].Err != nil {
							rep("crash.search-fails", fmt.Sprintf("image %s (one of %d simultaneous first searches): %v", v.origin, G, as[g].Err), wit())
							return
						}
					}
					a = as[0]
					for g := 1; g < G; g++ {
						for name, pair := range map[string][2]map[uint32]bool{"vector": {a.Vec, as[g].Vec}, "text": {a.Text, as[g].Text}, "metadata": {a.Meta, as[g].Meta}} {
							if pair[0] != nil && !sameSet(pair[0], pair[1]) {
								rep("crash.second-search-differs", fmt.Sprintf("image %s: %s answers differ between simultaneous first searches", v.origin, name), wit())
							}
						}
					}
					r.Count("images:first-searches-issued-simultaneously", 1)
				} else {
					a = searchAllModalities(rs, p)
				}
				if a.Err != nil {
					rep("crash.search-fails", fmt.Sprintf("image %s: %v", v.origin, a.Err), wit())
					return
				}
				// second search: answers must not depend on cache state
				a2 := searchAllModalities(rs, p)
				for name, pair := range map[string][2]map[uint32]bool{"vector": {a.Vec, a2.Vec}, "text": {a.Text, a2.Text}, "metadata": {a.Meta, a2.Meta}} {
					if pair[0] != nil && !sameSet(pair[0], pair[1]) {
						rep("crash.second-search-differs", fmt.Sprintf("image %s: %s answers differ between two consecutive searches", v.origin, name), wit())
					}
				}
				missing, foreign := a.check(durable, ever)
				if len(foreign) > 0 {
					rep("crash.never-added-id-returned", fmt.Sprintf("image %s: %v", v.origin, foreign), wit())
				}
				if len(missing) > 0 {
					var lost, lostByCompaction []uint32
					seenID := map[uint32]bool{}
					for _, l := range missing {
						for _, id := range l {
							if seenID[id] {
								continue
							}
							seenID[id] = true
							allConsumed := len(docSegs[id]) > 0
							for seg := range docSegs[id] {
								if !consumed[seg] {
									allConsumed = false
								}
							}
							// known finding (C08/F14): the document's segments were consumed by the compaction and at
							// least one of their files is already deleted in this image
							gone := false
							for seg := range docSegs[id] {
								for _, c := range comps {
									if _, ok := v.img[fmt.Sprintf("%s_%06d.bin.gz", c, seg)]; !ok {
										gone = true
									}
								}
							}
							if compaction && allConsumed && gone {
								lostByCompaction = append(lostByCompaction, id)
							} else {
								lost = append(lost, id)
							}
						}
					}
					if len(lostByCompaction) > 0 {
						rep("crash.compaction.docs-only-in-compacted-segments", fmt.Sprintf("image %s: %d durable documents of segments consumed (and partly deleted) by the interrupted compaction are gone", v.origin, len(lostByCompaction)), wit())
					}
					if len(lost) > 0 {
						sort.Slice(lost, func(i, j int) bool { return lost[i] < lost[j] })
						rep("crash.durable-document-lost", fmt.Sprintf("image %s: %d durable documents not found, e.g. %v", v.origin, len(lost), head(lost, 5)), wit())
					}
				}
				// new segments: damaged => nothing; intact => all or nothing
				for seg, docs := range newSegDocs {
					if len(docs) == 0 {
						continue
					}
					damaged := segDamaged(v.img, final, seg, comps)
					for name, got := range map[string]map[uint32]bool{"vector": a.Vec, "text": a.Text, "metadata": a.Meta} {
						if got == nil {
							continue
						}
						n := 0
						for id := range docs {
							if got[id] {
								n++
							}
						}
						if damaged && n > 0 {
							rep("crash.damaged-segment-contributes", fmt.Sprintf("image %s: segment %d has a missing/empty/truncated component but %d of its %d documents are returned by the %s query", v.origin, seg, n, len(docs), name), wit())
							break
						}
						if !damaged && n != 0 && n != len(docs) {
							// (documents may lack a modality only if generated so; here every document carries every configured modality)
							rep("crash.partial-segment", fmt.Sprintf("image %s: intact segment %d contributes %d of %d documents to the %s query", v.origin, seg, n, len(docs), name), wit())
							break
						}
					}
				}
				// identifiers are not reused
				nd := genStoreDoc(rng, p, ids.next(), "after")
				if err := rs.AddWithID(nd.ID, nd.Vec, nd.Text, nd.Meta); err != nil {
					rep("crash.add-after-reopen-fails", fmt.Sprintf("image %s: %v", v.origin, err), wit())
					return
				}
				if err := rs.Flush(); err != nil {
					rep("crash.flush-after-reopen-fails", fmt.Sprintf("image %s: %v", v.origin, err), wit())
					return
				}
				after, _ := readImage(idir)
				for n := range after {
					if _, had := v.img[n]; had {
						continue
					}
					if id, ok := segmentIDOf(n); ok && id <= v.img.maxID() {
						rep("crash.segment-id-reused", fmt.Sprintf("image %s: new file %s reuses id %d (image already has ids up to %d)", v.origin, n, id, v.img.maxID()), wit())
						break
					}
				}
				for n, b := range v.img {
					if ab, ok := after[n]; ok && string(ab) != string(b) {
						rep("crash.existing-file-overwritten", fmt.Sprintf("image %s: file %s was rewritten by the new flush", v.origin, n), wit())
						break
					}
				}
				// a second restart: what the recovered store acknowledged (the new flush) and what it returned right
				// after the crash must survive the next clean Close/Open too
				// (quick tier: every boundary image and every fifth byte-prefix image; thorough: all)
				if !(r.Thorough() || !strings.Contains(v.origin, "+") || vi%5 == 0) {
					r.Eval(vi > 0 && len(durable) > 0, ev.Digest(v.img.digest()))
					return
				}
				if err := rs.Close(); err != nil {
					rep("crash.close-after-reopen-fails", fmt.Sprintf("image %s: %v", v.origin, err), wit())
					return
				}
				rs2, err := p.open(idir)
				if err != nil {
					rep("crash.second-reopen-fails", fmt.Sprintf("image %s: Open after crash, reopen, add, Flush, Close failed: %v", v.origin, err), wit())
					return
				}
				defer rs2.Close()
				b := searchAllModalities(rs2, p)
				if b.Err != nil {
					rep("crash.search-fails", fmt.Sprintf("image %s (second restart): %v", v.origin, b.Err), wit())
					return
				}
				for name, pair := range map[string][2]map[uint32]bool{"vector": {a.Vec, b.Vec}, "text": {a.Text, b.Text}, "metadata": {a.Meta, b.Meta}} {
					if pair[0] == nil {
						continue
					}
					if !pair[1][nd.ID] {
						rep("crash.durable-document-lost.second-restart", fmt.Sprintf("image %s: document %d, added and flushed (nil) after the recovery, is not returned by the %s query after the next clean restart", v.origin, nd.ID, name), wit())
						break
					}
					var gone []uint32
					for id := range pair[0] {
						if !pair[1][id] {
							gone = append(gone, id)
						}
					}
					if len(gone) > 0 {
						sort.Slice(gone, func(i, j int) bool { return gone[i] < gone[j] })
						rep("crash.durable-document-lost.second-restart", fmt.Sprintf("image %s: %d documents returned by the %s query right after the recovery are gone after the next clean restart, e.g. %v", v.origin, len(gone), name, head(gone, 5)), wit())
						break
					}
				}
				r.Count("probes:second-restart", 1)
				rs2.Close()
				// identifiers stay used even if a compaction clears the interrupted segment away: on a fresh copy of the
				// image, reopen, run a compaction (it may refuse because of the damaged input: fine), restart, flush one
				// document: its segment id must exceed every id that appears in the image's file names
				if err := func() error {
					cdir, err := os.MkdirTemp("", "verif-c10cmp-*")
					if err != nil {
						panic(err)
					}
					defer os.RemoveAll(cdir)
					if err := v.img.materialise(cdir); err != nil {
						panic(err)
					}
					c1, err := p.open(cdir)
					if err != nil {
						return fmt.Errorf("Open: %w", err)
					}
					cerr := c1.VerifCompactNow()
					if err := c1.Close(); err != nil {
						return fmt.Errorf("Close after compaction (%v): %w", cerr, err)
					}
					c2, err := p.open(cdir)
					if err != nil {
						return fmt.Errorf("Open after compaction (%v) and restart: %w", cerr, err)
					}
					defer c2.Close()
					cd := genStoreDoc(rng, p, ids.next(), "aftercompaction")
					if err := c2.AddWithID(cd.ID, cd.Vec, cd.Text, cd.Meta); err != nil {
						return fmt.Errorf("Add after compaction and restart: %w", err)
					}
					if err := c2.Flush(); err != nil {
						return fmt.Errorf("Flush after compaction and restart: %w", err)
					}
					var newest uint64
					for _, seg := range c2.VerifSegmentIDs() {
						if seg > newest {
							newest = seg
						}
					}
					if newest <= v.img.maxID() {
						rep("crash.segment-id-reused", fmt.Sprintf("image %s: after reopen, compaction (%v), restart and one flush the newest segment id is %d, but the image already used ids up to %d", v.origin, cerr, newest, v.img.maxID()), wit())
					}
					r.Count("probes:compaction-then-restart-id-check", 1)
					return nil
				}(); err != nil {
					rep("crash.compaction-then-restart-fails", fmt.Sprintf("image %s: %v", v.origin, err), wit())
				}
				inside := vi > 0
				r.Eval(inside && len(durable) > 0, ev.Digest(v.img.digest()))
			}()
		}
		r.Count("boundaries-snapshotted", int64(len(snaps)))
		r.Count("images-reopened", int64(len(variants)))
		if compaction {
			r.Count("cases:interrupted-compaction", 1)
		} else {
			r.Count("cases:interrupted-flush", 1)
		}
		if r.WantSample() && ci < 4 {
			var pts []string
			for _, sn := range snaps {
				pts = append(pts, sn.point)
			}
			r.Sample(map[string]any{"params": desc, "durable_docs": len(durable), "boundaries": pts, "images": len(variants)})
		}
	})
	c10AckThenCrash(r, ctl)
	c10RealCrashes(r)
	for p, c := range ctl.snapshotCounts() {
		if strings.HasPrefix(p, "crash:") {
			r.Count("hook-hits:"+p, c)
		}
	}
	r.Exhaustive = exhaustive
}

// c10RealCrashes cross-checks the in-process image engine with REAL process deaths: a child process (cmd/storehelper)
// first makes a few documents durable (Flush + Close), a second child adds more and SIGKILLs itself at the n-th hit of a
// crash:* point inside its Flush; the parent removes the stale LOCK and applies the same reopen oracle to the real directory.
func c10RealCrashes(r *ev.Run) {
	helper := os.Getenv("VERIF_HELPER")
	if helper == "" {
		r.Count("real-crashes:skipped(no helper)", 1)
		return
	}
	points := []string{"crash:flush.create.hybrid", "crash:flush.create.vector", "crash:flush.create.text", "crash:flush.create.metadata", "crash:flush.written",
		"crash:flush.close.vector", "crash:flush.close.text", "crash:flush.close.metadata", "crash:flush.close.hybrid", "crash:flush.added"}
	reps := r.Pick(1, 6)
	p := storeParams{VecKind: "flat", Text: true, Meta: true, Dim: 2, Metric: "l2", CompactionThreshold: 1000, MemtableSizeLimit: 1 << 20, FlushThreshold: 1 << 40}
	r.Cases("real-crash", reps*len(points), func(ci int, rng *rand.Rand) {
		point := points[ci%len(points)]
		dir, err := os.MkdirTemp("", "verif-c10k-*")
		if err != nil {
			panic(err)
		}
		defer os.RemoveAll(dir)
		rep := func(sig, what string) {
			r.ViolationAt("real-crash", ci, sig, fmt.Sprintf("SIGKILL at %s: %s", point, what), nil)
		}
		nDur, nPend := 1+rng.IntN(3), 1+rng.IntN(3)
		// child 1: durable documents 1000.. (a point that is never hit => runs to completion)
		out, _ := exec.Command(helper, "crash", dir, "no-such-point", "1", fmt.Sprint(nDur), "1000").CombinedOutput()
		if !strings.Contains(string(out), "CLOSED") {
			r.Inconclusive("helper could not create the durable prefix")
			return
		}
		// child 2: pending documents 2000.., killed inside its Flush
		out, _ = exec.Command(helper, "crash", dir, point, "1", fmt.Sprint(nPend), "2000").CombinedOutput()
		if strings.Contains(string(out), "CLOSED") {
			r.Inconclusive("crash point not reached in the child: " + point)
			return
		}
		os.Remove(filepath.Join(dir, "LOCK"))
		durable, ever, pend := map[uint32]bool{}, map[uint32]bool{}, map[uint32]bool{}
		for i := 0; i < nDur; i++ {
			durable[uint32(1000+i)], ever[uint32(1000+i)] = true, true
		}
		for i := 0; i < nPend; i++ {
			pend[uint32(2000+i)], ever[uint32(2000+i)] = true, true
		}
		img, _ := readImage(dir)
		s, err := p.open(dir)
		if err != nil {
			rep("crash.reopen-fails", "Open failed on the directory a killed process left: "+err.Error())
			return
		}
		defer s.Close()
		a := searchAllModalities(s, p)
		if a.Err != nil {
			rep("crash.search-fails", a.Err.Error())
			return
		}
		missing, foreign := a.check(durable, ever)
		if len(foreign) > 0 {
			rep("crash.never-added-id-returned", fmt.Sprint(foreign))
		}
		if len(missing) > 0 {
			rep("crash.durable-document-lost", fmt.Sprintf("durable documents not found: %v", missing))
		}
		for name, got := range map[string]map[uint32]bool{"vector": a.Vec, "text": a.Text, "metadata": a.Meta} {
			n := 0
			for id := range pend {
				if got[id] {
					n++
				}
			}
			if n != 0 && n != len(pend) {
				rep("crash.partial-segment", fmt.Sprintf("the interrupted segment contributes %d of %d documents to the %s query", n, len(pend), name))
			}
			if n != 0 && point != "crash:flush.close.hybrid" && point != "crash:flush.added" {
				rep("crash.damaged-segment-contributes", fmt.Sprintf("killed at %s (hybrid file not complete yet) but %d documents of that segment are returned by the %s query", point, n, name))
			}
		}
		nd := genStoreDoc(rng, p, 3000, "after")
		if err := s.AddWithID(nd.ID, nd.Vec, nd.Text, nd.Meta); err == nil {
			if err := s.Flush(); err != nil {
				rep("crash.flush-after-reopen-fails", err.Error())
			}
		}
		after, _ := readImage(dir)
		for n := range after {
			if _, had := img[n]; !had {
				if id, ok := segmentIDOf(n); ok && id <= img.maxID() {
					rep("crash.segment-id-reused", fmt.Sprintf("new file %s reuses id %d", n, id))
					break
				}
			}
		}
		r.Count("real-crashes:"+point, 1)
		r.Eval(true, ev.Digest("kill", point, ci))
	})
}

// c10AckThenCrash: the background flush worker is held in the middle of writing a segment (at each crash:flush.* point);
// beside it the application calls Flush(); the instant Flush returns nil the directory is copied (= the process dies
// right after the acknowledgement). Every document added before that Flush() call must be found in the image.
func c10AckThenCrash(r *ev.Run, ctl *hookCtl) {
	points := []string{"crash:flush.create.hybrid", "crash:flush.create.vector", "crash:flush.written", "crash:flush.close.vector", "crash:flush.close.hybrid", "crash:flush.added", "flush.registered"}
	reps := r.Pick(1, 5)
	r.Cases("ack-then-crash", reps*len(points), func(ci int, rng *rand.Rand) {
		point := points[ci%len(points)]
		p := storeParams{VecKind: "flat", Text: true, Meta: true, Dim: 2, Metric: allMetrics[rng.IntN(3)], CompactionThreshold: 1000,
			MemtableSizeLimit: 500, FlushThreshold: 1} // one document per memtable (the first one fits, so no empty memtable is ever frozen); every add wakes the background flush worker
		dir, err := os.MkdirTemp("", "verif-c10a-*")
		if err != nil {
			panic(err)
		}
		defer os.RemoveAll(dir)
		rep := func(sig, what string, extra map[string]any) {
			w := map[string]any{"point": point, "params": p.String()}
			for k, v := range extra {
				w[k] = v
			}
			r.ViolationAt("ack-then-crash", ci, sig, fmt.Sprintf("worker held at %s: %s", point, what), w)
		}
		s, err := p.open(dir)
		if err != nil {
			rep("crash.open-error", err.Error(), nil)
			return
		}
		var mu sync.Mutex
		acked := map[uint32]bool{}
		ever := map[uint32]bool{}
		var owed map[uint32]bool
		var img dirImage
		var flushErr error
		taken := make(chan struct{})
		var once sync.Once
		ctl.setTarget(point, 1, func(args []any) {
			_, done := runBeside(func() {
				mu.Lock()
				owed = map[uint32]bool{}
				for id := range acked {
					owed[id] = true
				}
				mu.Unlock()
				flushErr = s.Flush()
				if flushErr == nil {
					img, _ = readImage(dir)
				}
				once.Do(func() { close(taken) })
			}, 2*time.Second)
			_ = done
		})
		base := uint32(1<<29 + ci<<8)
		for i := 0; i < 4; i++ {
			d := genStoreDoc(rng, p, base+uint32(i), "a")
			mu.Lock()
			ever[d.ID] = true
			mu.Unlock()
			if err := s.AddWithID(d.ID, d.Vec, d.Text, d.Meta); err != nil {
				rep("crash.add-error", err.Error(), nil)
				break
			}
			mu.Lock()
			acked[d.ID] = true
			mu.Unlock()
			for k := 0; k < 200 && !ctl.fired(); k++ { // give the worker a chance to reach the point (no verdict depends on it)
				time.Sleep(100 * time.Microsecond)
			}
		}
		select {
		case <-taken:
		case <-time.After(30 * time.Second):
		}
		fired := ctl.fired()
		ctl.clearTarget()
		// the clean path too: Close() returned nil, so EVERY acknowledged add must be there after a restart, whatever
		// the overlapping flush passes (worker + Flush()) did to the memtable queue in between
		if cerr := s.Close(); cerr != nil {
			rep("crash.close-error", cerr.Error(), nil)
		} else if cs, err := p.open(dir); err != nil {
			rep("crash.reopen-fails", "Open failed after overlapping flush passes and a clean Close: "+err.Error(), nil)
		} else {
			ca := searchAllModalities(cs, p)
			cs.Close()
			mu.Lock()
			all := map[uint32]bool{}
			for id := range acked {
				all[id] = true
			}
			mu.Unlock()
			if ca.Err != nil {
				rep("crash.search-fails", "after a clean Close: "+ca.Err.Error(), nil)
			} else if missing, _ := ca.check(all, ever); len(missing) > 0 {
				rep("crash.acknowledged-then-closed-but-lost", fmt.Sprintf("worker and Flush() overlapped, then Close() returned nil; after reopening, acknowledged documents are missing: %v", missing), nil)
			}
			r.Count("ack-then-crash:clean-close-reopen", 1)
		}
		if !fired || img == nil {
			if flushErr != nil {
				rep("crash.flush-error", "Flush beside the held worker failed: "+flushErr.Error(), nil)
				return
			}
			if r.Verbose() || os.Getenv("VERIF_DEBUG") != "" {
				fmt.Printf("DEBUG ack-then-crash %s fired=%v img=%v flushErr=%v counts=%v\n", point, fired, img != nil, flushErr, ctl.snapshotCounts())
			}
			r.Count("ack-then-crash:point-not-reached-by-the-worker", 1)
			r.Inconclusive("background worker did not reach " + point)
			return
		}
		idir, err := os.MkdirTemp("", "verif-c10aimg-*")
		if err != nil {
			panic(err)
		}
		defer os.RemoveAll(idir)
		img.materialise(idir)
		files := map[string]int{}
		for n, b := range img {
			files[n] = len(b)
		}
		rs, err := p.open(idir)
		if err != nil {
			rep("crash.reopen-fails", "Open failed on the image taken right after Flush returned nil: "+err.Error(), map[string]any{"image_files(bytes)": files})
			return
		}
		defer rs.Close()
		a := searchAllModalities(rs, p)
		if a.Err != nil {
			rep("crash.search-fails", a.Err.Error(), map[string]any{"image_files(bytes)": files})
			return
		}
		missing, foreign := a.check(owed, ever)
		if len(foreign) > 0 {
			rep("crash.never-added-id-returned", fmt.Sprint(foreign), nil)
		}
		if len(missing) > 0 {
			rep("crash.acknowledged-by-flush-but-lost", fmt.Sprintf("Flush() returned nil while the background worker was still writing; a crash right after it loses %v (owed %d documents)", missing, len(owed)), map[string]any{"image_files(bytes)": files})
		}
		r.Count("ack-then-crash:"+point, 1)
		r.Eval(len(owed) > 0, ev.Digest("ack", point, ci))
	})
}
