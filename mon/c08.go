package mon

import (
	"fmt"
	"math/rand/v2"
	"os"
	"sort"
	"strings"
	"sync"
	"time"

	"github.com/wizenheimer/comet"

	"verif/internal/ev"
)

func init() { register("C08", "exploration", runC08) }

// storeModel is what the store acknowledged.
type storeModel struct {
	live    map[uint32]storeDoc
	removed map[uint32]bool
	ever    map[uint32]bool
	inMem   map[uint32]bool            // acknowledged, not yet known to be in a segment
	segs    map[uint32]map[uint64]bool // document -> segments that hold it (deterministic mode)
	// documents whose every copy lived in segments consumed by a compaction (known finding F14)
	onlyInCompacted map[uint32]bool
}

func newStoreModel() *storeModel {
	return &storeModel{live: map[uint32]storeDoc{}, removed: map[uint32]bool{}, ever: map[uint32]bool{}, inMem: map[uint32]bool{},
		segs: map[uint32]map[uint64]bool{}, onlyInCompacted: map[uint32]bool{}}
}

// snapshot copies the model (the obligations of a search are those that existed when it began).
func (m *storeModel) snapshot() *storeModel {
	c := newStoreModel()
	for k, v := range m.live {
		c.live[k] = v
	}
	for k := range m.ever {
		c.ever[k] = true
	}
	for k := range m.removed {
		c.removed[k] = true
	}
	for k := range m.onlyInCompacted {
		c.onlyInCompacted[k] = true
	}
	return c
}

func (m *storeModel) liveSet() map[uint32]bool {
	out := make(map[uint32]bool, len(m.live))
	for id := range m.live {
		out[id] = true
	}
	return out
}

func segSet(ids []uint64) map[uint64]bool {
	out := map[uint64]bool{}
	for _, id := range ids {
		out[id] = true
	}
	return out
}

// noteFlush: after a synchronous Flush returned nil, read every new segment back from disk (with the harness's
// own indexes) to learn exactly which documents it holds.
func (m *storeModel) noteFlush(dir string, p storeParams, before, after []uint64) error {
	b := segSet(before)
	for _, seg := range after {
		if b[seg] {
			continue
		}
		docs, err := loadSegmentDocs(dir, seg, p)
		if err != nil {
			return fmt.Errorf("segment %d: %w", seg, err)
		}
		for id := range docs {
			if m.segs[id] == nil {
				m.segs[id] = map[uint64]bool{}
			}
			m.segs[id][seg] = true
			delete(m.inMem, id)
		}
	}
	return nil
}

// noteCompaction: segments that disappeared were consumed; a document all of whose copies were there can only
// survive if the merged segment really contains it.
func (m *storeModel) noteCompaction(before, after []uint64) (consumed []uint64) {
	a := segSet(after)
	for _, id := range before {
		if !a[id] {
			consumed = append(consumed, id)
		}
	}
	if len(consumed) == 0 {
		return nil
	}
	c := segSet(consumed)
	for id, where := range m.segs {
		if m.inMem[id] {
			continue
		}
		all := len(where) > 0
		for s := range where {
			if !c[s] {
				all = false
			}
		}
		if all {
			m.onlyInCompacted[id] = true
		}
	}
	return consumed
}

// checkStoreVisibility runs the all-modality probe and classifies what is missing.
func checkStoreVisibility(rep reporter, r *ev.Run, s comet.HybridSearchIndex, p storeParams, m *storeModel, when string, everAfter ...func() map[uint32]bool) {
	a := searchAllModalities(s, p)
	if a.Err != nil {
		rep("store.search-error", when+": "+a.Err.Error())
		return
	}
	want := m.liveSet()
	ever := m.ever
	if len(everAfter) > 0 {
		ever = everAfter[0]() // ids whose add had at least begun by the time the search returned
	}
	if len(everAfter) > 1 {
		// a document whose removal began before the search returned is no longer owed
		for id := range everAfter[1]() {
			delete(want, id)
		}
	}
	missing, foreign := a.check(want, ever)
	if len(foreign) > 0 {
		rep("store.never-added-id-returned", fmt.Sprintf("%s: ids never added: %v", when, foreign))
	}
	for name, got := range map[string]map[uint32]bool{"vector": a.Vec, "text": a.Text, "metadata": a.Meta} {
		for id := range got {
			if m.removed[id] {
				rep("store.removed-id-returned", fmt.Sprintf("%s: %s query returns id %d whose Remove succeeded", when, name, id))
				break
			}
		}
	}
	if len(missing) > 0 {
		mods := make([]string, 0, len(missing))
		for k := range missing {
			mods = append(mods, k)
		}
		sort.Strings(mods)
		var compacted, other []uint32
		seen := map[uint32]bool{}
		for _, mod := range mods {
			for _, id := range missing[mod] {
				if seen[id] {
					continue
				}
				seen[id] = true
				if m.onlyInCompacted[id] {
					compacted = append(compacted, id)
				} else {
					other = append(other, id)
				}
			}
		}
		if len(compacted) > 0 {
			rep("store.compaction.docs-only-in-compacted-segments", fmt.Sprintf("%s: %d acknowledged documents whose only copies were in segments consumed by a compaction are gone (modalities %v), e.g. %v", when, len(compacted), mods, head(compacted, 5)))
		}
		if len(other) > 0 {
			rep("store.acknowledged-document-invisible", fmt.Sprintf("%s: %d acknowledged, not removed documents are not returned (modalities %v), e.g. %v", when, len(other), mods, head(other, 5)))
		}
	}
	if p.Meta {
		// an ordering filter on a field that some memtables / segments have never seen
		res, err := s.NewSearch().WithMetadata(comet.Gte("n", 0)).WithK(bigK).Execute()
		if err != nil {
			rep("store.range-filter-fails-on-a-part-without-the-field", when+": Gte(n,0): "+err.Error())
		} else {
			got := map[uint32]bool{}
			for _, x := range res {
				got[x.ID] = true
			}
			for id, d := range m.live {
				if _, has := d.Meta["n"]; has && want[id] && !got[id] && !m.onlyInCompacted[id] {
					rep("store.acknowledged-document-invisible", fmt.Sprintf("%s: document %d carries n>=0 but is not returned by Gte(n,0)", when, id))
					break
				}
				if _, has := d.Meta["n"]; !has && got[id] {
					rep("store.range-filter-returns-document-without-the-field", fmt.Sprintf("%s: document %d has no field n but is returned by Gte(n,0)", when, id))
					break
				}
			}
			r.Count("probes:range-filter-on-sparse-field", 1)
		}
	}
	r.Count("probes:visibility:"+when, 1)
}

func runC08(r *ev.Run) {
	r.Rule = "stream 'history': case = store (flat|none vector template, +-text, +-metadata, memtable size limit from one document up, compaction threshold 2..5, flush threshold either huge (synchronous, with compaction ops) or small (background flushes)) " +
		"under a generated sequential history over Add / AddWithID / Remove / Flush / forced rotation / synchronous compaction / cache eviction; after every op one all-matching query per modality is issued TWICE and again after the next op: " +
		"acknowledged-and-not-removed ⊆ result ⊆ ever-added, removed ids absent; for vector-only queries the id set (k large and small) is compared with one in-memory hybrid index fed the same successful ops. " +
		"stream 'schedule': every hook point of the flush / segment-load / search path x action {add, add forcing rotation, search-all, Flush, evict} run beside the paused goroutine, visibility re-checked afterwards; " +
		"structural monitor: sub-index instances (pointer identity) owned by more than one memtable / loaded segment / compaction output or equal to a template are counted as violations. " +
		"non-trivial = history with >=1 rotation, >=1 flush, >=1 eviction-then-search and >=1 removal; distinct by (params, history digest) Since the seed waves: injected I/O fault on Flush, Train through the store, PQ / IVFPQ templates (visibility only), documents sharing one vector (small-k comparison on reference distances: strictly nearer than the k-th distance must be present), a held store search object, stream 'train-late' (untrained ivf template, vector-less documents, then store.Train), schedule point memtable.add.locked and roomy variants."
	r.Assumptions = []string{"background flush interleavings are whatever the scheduler produces; the oracle (visibility) does not depend on them", "a Remove that returns an error removes nothing from the model (removal is documented to reach the writable memtable only)"}
	n := r.Pick(120, 2500)
	r.CasesParallel("history", n, 8, func(ci int, rng *rand.Rand) {
		p := genStoreParams(rng, []string{"flat", "flat", "", "flat", "pq", "ivfpq"})
		p.CompactionThreshold = 2 + rng.IntN(4)
		background := ci%3 == 0
		if background {
			p.FlushThreshold = int64(200 + rng.IntN(2000))
		}
		dir, err := os.MkdirTemp("", "verif-c08-*")
		if err != nil {
			panic(err)
		}
		defer os.RemoveAll(dir)
		s, err := p.open(dir)
		if err != nil {
			r.ViolationAt("history", ci, "store.open-error", err.Error(), nil)
			return
		}
		defer s.Close()
		ref, _ := newHybridSUT(p.VecKind == "flat", p.Text, p.Meta, p.Dim, p.Metric)
		m := newStoreModel()
		var log []string
		dead := false
		rep := func(sig, what string) {
			if dead && sig != "store.compaction.docs-only-in-compacted-segments" {
				return
			}
			if sig != "store.compaction.docs-only-in-compacted-segments" {
				dead = true
			}
			l := log
			if len(l) > 50 {
				l = l[len(l)-50:]
			}
			r.ViolationAt("history", ci, sig, fmt.Sprintf("%s background=%v: %s", p, background, what), map[string]any{"params": p.String(), "background_flush": background, "log_tail": l})
		}
		ids := newIDGen(rng)
		ids.min = 1 << 24
		rotations, flushes, evictSearch, removals, compactions := 0, 0, 0, 0, 0
		probe := func(when string) {
			checkStoreVisibility(rep, r, s, p, m, when)
			checkStoreVisibility(rep, r, s, p, m, when+"-second-search")
			if p.VecKind == "flat" && !dead {
				// vector-only id set == one in-memory hybrid index holding the same live documents
				q := make([]float32, p.Dim)
				for i := range q {
					q[i] = float32(rng.NormFloat64())
				}
				q[0] += 0.5
				if live := sortedKeys(m.liveSet()); len(live) > 0 && rng.IntN(2) == 0 {
					q = cloneF32(m.live[live[rng.IntN(len(live))]].Vec) // distance exactly 0 to a stored document
					r.Count("probes:vector-only-query-equals-stored-vector", 1)
				}
				for _, k := range []int{bigK, 1 + rng.IntN(4)} {
					got, err1 := s.NewSearch().WithVector(cloneF32(q)).WithK(k).Execute()
					want, err2 := ref.idx.NewSearch().WithVector(cloneF32(q)).WithK(k).Execute()
					if err1 != nil || err2 != nil {
						rep("store.search-error", fmt.Sprintf("vector-only k=%d: %v / reference: %v", k, err1, err2))
						continue
					}
					gs, ws := map[uint32]bool{}, map[uint32]bool{}
					for _, x := range got {
						gs[x.ID] = true
					}
					for _, x := range want {
						if !m.onlyInCompacted[x.ID] {
							ws[x.ID] = true
						}
					}
					for id := range gs {
						if m.onlyInCompacted[id] {
							delete(gs, id)
						}
					}
					if !sameSet(gs, ws) && len(m.onlyInCompacted) == 0 {
						// ties at the k-th distance make the small-k set ambiguous: compare only when the boundary is clear
						if k != bigK {
							// small k: ties at the k-th distance (the same vector under two ids, symmetric points) make
							// the id set ambiguous, but not all of it. From the reference index's COMPLETE listing: with dk =
							// the k-th smallest distance, every document strictly nearer than dk belongs to any correct
							// answer, nothing farther than dk does, and the answer has min(k, n) members.
							all, err := ref.idx.NewSearch().WithVector(cloneF32(q)).WithK(bigK).Execute()
							if err != nil {
								rep("store.search-error", "reference index: "+err.Error())
								continue
							}
							var dists []float64
							dist := map[uint32]float64{}
							for _, x := range all {
								if !m.onlyInCompacted[x.ID] {
									dists = append(dists, x.Score)
									dist[x.ID] = x.Score
								}
							}
							sort.Float64s(dists)
							if len(m.onlyInCompacted) > 0 || len(dists) == 0 {
								continue
							}
							wantN := min(k, len(dists))
							dk := dists[wantN-1]
							bad := ""
							if len(gs) != wantN {
								bad = fmt.Sprintf("%d results, want %d", len(gs), wantN)
							}
							for id, d := range dist {
								if d < dk && !gs[id] {
									bad = fmt.Sprintf("document %d at distance %g, strictly nearer than the k-th distance %g, is missing", id, d, dk)
								}
							}
							for id := range gs {
								if d, ok := dist[id]; !ok {
									bad = fmt.Sprintf("document %d is returned but the in-memory index does not hold it", id)
								} else if d > dk {
									bad = fmt.Sprintf("document %d at distance %g is returned although the k-th distance is %g", id, d, dk)
								}
							}
							if bad != "" {
								rep("store.vector-only-idset-differs-from-in-memory-index.small-k", fmt.Sprintf("vector-only query k=%d: %s (store returned %v)", k, bad, sortedKeys(gs)))
							} else {
								r.Count("probes:vector-only-small-k-tie-at-the-boundary(either id accepted)", 1)
							}
							continue
						}
						sig := "store.vector-only-idset-differs-from-in-memory-index"
						if k != bigK {
							sig += ".small-k"
						}
						rep(sig, fmt.Sprintf("vector-only query k=%d: %s", k, setDiff(gs, ws)))
					}
					r.Count("probes:vector-only-vs-in-memory", 1)
				}
			}
		}
		// one long-lived search object per history: executed with a small k, kept while the store changes, then
		// re-configured (k beyond the corpus, sometimes another query vector) and executed again; the answer must be the
		// one a fresh search object with the same final configuration gives (whatever an Execute leaves behind in the
		// builder - a bound, a clamped k, a cached part list - shows up here)
		var heldS comet.HybridSearch
		var heldVec []float32
		heldProbe := func() {
			if p.VecKind == "" {
				return
			}
			if heldS != nil && rng.IntN(2) == 0 {
				if rng.IntN(3) == 0 {
					heldVec = make([]float32, p.Dim)
					for i := range heldVec {
						heldVec[i] = float32(rng.NormFloat64())
					}
					heldVec[0] += 0.25
					heldS = heldS.WithVector(cloneF32(heldVec))
				}
				heldS = heldS.WithK(bigK)
				a1, e1 := heldS.Execute()
				a2, e2 := s.NewSearch().WithVector(cloneF32(heldVec)).WithK(bigK).Execute()
				if (e1 != nil) != (e2 != nil) {
					rep("store.held-search-object-differs", fmt.Sprintf("a search object executed earlier, re-configured and executed again: err=%v; a fresh object with the same configuration: err=%v", e1, e2))
				} else if e1 == nil {
					g1, g2 := map[uint32]bool{}, map[uint32]bool{}
					for _, x := range a1 {
						g1[x.ID] = true
					}
					for _, x := range a2 {
						g2[x.ID] = true
					}
					if !sameSet(g1, g2) {
						rep("store.held-search-object-differs", "a search object executed earlier, re-configured (k beyond the corpus) and executed again differs from a fresh object with the same configuration: "+setDiff(g1, g2))
					}
				}
				r.Count("probes:held-search-object", 1)
				heldS = nil
				return
			}
			if heldS == nil {
				heldVec = make([]float32, p.Dim)
				for i := range heldVec {
					heldVec[i] = float32(rng.NormFloat64())
				}
				heldVec[0] += 0.25
				heldS = s.NewSearch().WithVector(cloneF32(heldVec)).WithK(1 + rng.IntN(3))
				if _, err := heldS.Execute(); err != nil {
					rep("store.search-error", "held search object: "+err.Error())
					heldS = nil
				}
			}
		}
		nOps := 15 + rng.IntN(45)
		for op := 0; op < nOps && !dead; op++ {
			heldProbe()
			c := rng.IntN(20)
			switch {
			case c < 9:
				d := genStoreDoc(rng, p, ids.next(), "h")
				if live := sortedKeys(m.liveSet()); p.VecKind != "" && len(live) > 0 && rng.IntN(4) == 0 {
					// the same vector under another id (a re-upload, a near-duplicate document): exact distance ties,
					// usually across two parts of the store
					d.Vec = cloneF32(m.live[live[rng.IntN(len(live))]].Vec)
					r.Count("ops:add-with-the-vector-of-another-document", 1)
				} else if p.VecKind == "flat" && p.Metric != comet.Cosine && len(d.Vec) > 0 && rng.IntN(12) == 0 {
					// a legal, finite vector so far out that its squared distance to every query overflows float32: it is
					// reported at distance +Inf, and it is an acknowledged document like any other
					d.Vec[rng.IntN(len(d.Vec))] = float32(1+rng.IntN(5)) * 1e20 * float32(1-2*rng.IntN(2))
					r.Count("ops:add-outlier-at-infinite-distance", 1)
				}
				if rng.IntN(10) == 0 {
					// a REFUSED write first: a document the store cannot take (a metadata value of a type it does not
					// support, a vector of the wrong length, a zero vector under cosine). It was never added: no search may
					// ever return its id — now, after flushes, after evictions — although its other parts were fine
					bad := genStoreDoc(rng, p, ids.next(), "h")
					why := ""
					switch k := rng.IntN(3); {
					case k == 0 && p.Meta:
						if bad.Meta == nil {
							bad.Meta = map[string]any{}
						}
						bad.Meta["tags"] = []string{"a", "b"}
						why = "unsupported metadata value"
					case k == 1 && p.VecKind != "" && len(bad.Vec) > 0:
						bad.Vec = append(cloneF32(bad.Vec), 1)
						why = "vector one component too long"
					case k == 2 && p.VecKind != "" && p.Metric == comet.Cosine && len(bad.Vec) > 0:
						bad.Vec = make([]float32, len(bad.Vec))
						why = "zero vector under cosine"
					}
					if why != "" {
						err := s.AddWithID(bad.ID, cloneF32(bad.Vec), bad.Text, bad.Meta)
						log = append(log, fmt.Sprintf("AddWithID(%d) with %s -> %v", bad.ID, why, err))
						if err == nil {
							m.ever[bad.ID] = true // taken after all: then it may show up (what it must look like is C06's business)
							r.Count("ops:unacceptable-add-accepted", 1)
						} else {
							r.Count("ops:add-refused", 1)
						}
					}
				}
				before := s.VerifMemtableCount()
				var err error
				if rng.IntN(4) == 0 {
					var id uint32
					id, err = s.Add(cloneF32(d.Vec), d.Text, d.Meta)
					if err == nil {
						if m.ever[id] {
							rep("store.auto-id-repeated", fmt.Sprintf("Add returned id %d again", id))
						}
						d.ID = id
					}
				} else {
					if !m.ever[0] && rng.IntN(10) == 0 {
						d.ID = 0 // the smallest id there is: legal for AddWithID like any other (generated ids start at 1)
						r.Count("ops:add-with-id-0", 1)
					}
					err = s.AddWithID(d.ID, cloneF32(d.Vec), d.Text, d.Meta)
				}
				if err != nil {
					rep("store.add-error", fmt.Sprintf("add of a valid document failed: %v", err))
					break
				}
				if s.VerifMemtableCount() > before {
					rotations++
				}
				log = append(log, fmt.Sprintf("add %d", d.ID))
				m.live[d.ID], m.ever[d.ID], m.inMem[d.ID] = d, true, true
				ref.idx.AddWithID(d.ID, cloneF32(d.Vec), d.Text, d.Meta)
				r.Count("ops:add", 1)
			case c < 12:
				if len(m.live) == 0 {
					continue
				}
				live := sortedKeys(m.liveSet())
				id := live[rng.IntN(len(live))]
				if rng.IntN(2) == 0 { // prefer a recent document (still in the writable memtable)
					id = live[len(live)-1]
				}
				err := s.Remove(id)
				log = append(log, fmt.Sprintf("remove %d -> err=%v", id, err != nil))
				if err == nil {
					delete(m.live, id)
					delete(m.inMem, id)
					m.removed[id] = true
					ref.idx.Remove(id)
					removals++
					r.Count("ops:remove-succeeded", 1)
					if rng.IntN(3) == 0 {
						// the removed id comes back with new content (an update): an acknowledged write like any other
						d := genStoreDoc(rng, p, id, "u")
						if err := s.AddWithID(d.ID, cloneF32(d.Vec), d.Text, d.Meta); err != nil {
							rep("store.add-error", fmt.Sprintf("re-adding removed id %d failed: %v", id, err))
							break
						}
						log = append(log, fmt.Sprintf("re-add %d", id))
						delete(m.removed, id)
						m.live[id], m.ever[id], m.inMem[id] = d, true, true
						ref.idx.AddWithID(d.ID, cloneF32(d.Vec), d.Text, d.Meta)
						r.Count("ops:re-add-removed-id", 1)
					}
				} else {
					r.Count("ops:remove-refused(not in writable memtable)", 1)
				}
			case c < 14:
				before := s.VerifSegmentIDs()
				if !background && rng.IntN(4) == 0 {
					// injected I/O fault: the next segment's file cannot be created; whatever Flush answers, every
					// acknowledged document stays visible, and the next Flush (fault gone) works
					comps := []string{"hybrid"}
					if p.VecKind != "" {
						comps = append(comps, "vector")
					}
					if p.Text {
						comps = append(comps, "text")
					}
					if p.Meta {
						comps = append(comps, "metadata")
					}
					comp := comps[rng.IntN(len(comps))]
					obst := obstructNextSegments(dir, comp, 3)
					err := s.Flush()
					clearObstacles(obst)
					log = append(log, fmt.Sprintf("Flush with the next %s files obstructed -> %v", comp, err))
					if err := m.noteFlush(dir, p, before, s.VerifSegmentIDs()); err != nil {
						rep("store.segment-unreadable-after-flush", err.Error())
					}
					if err != nil {
						r.Count("ops:flush-failed-by-injected-io-fault", 1)
					}
					probe("after-failed-flush")
					if rng.IntN(2) == 0 {
						s.VerifEvictAllCaches()
						probe("after-failed-flush-evicted")
					}
					before = s.VerifSegmentIDs()
				}
				err := s.Flush()
				log = append(log, fmt.Sprintf("Flush -> %v", err))
				if err != nil {
					rep("store.flush-error", err.Error())
					break
				}
				if !background {
					if err := m.noteFlush(dir, p, before, s.VerifSegmentIDs()); err != nil {
						rep("store.segment-unreadable-after-flush", err.Error())
					}
				} else {
					m.inMem = map[uint32]bool{}
				}
				flushes++
				r.Count("ops:flush", 1)
			case c < 16:
				if rng.IntN(3) == 0 {
					// Train() through the store (a no-op for a flat template, an error without a vector template): it
					// replaces the writable memtable, whose documents must stay visible
					sample := make([][]float32, 4+rng.IntN(4))
					for i := range sample {
						sample[i] = make([]float32, p.Dim)
						for j := range sample[i] {
							sample[i][j] = float32(rng.NormFloat64())
						}
					}
					if p.VecKind != "flat" && p.VecKind != "" {
						sample = clone2D(p.ivfTrain) // a kind that really trains: the same data again (changes nothing)
					}
					err := s.Train(sample)
					log = append(log, fmt.Sprintf("Train -> %v", err))
					if (err != nil) != (p.VecKind == "") {
						rep("store.train-result", fmt.Sprintf("Train on a store with vector template %q returned %v", p.VecKind, err))
					}
					r.Count("ops:train", 1)
					break
				}
				s.VerifRotate()
				rotations++
				log = append(log, "rotate")
				r.Count("ops:forced-rotation", 1)
			case c < 18:
				s.VerifEvictAllCaches()
				log = append(log, "evict-all-caches")
				evictSearch++
				r.Count("ops:evict", 1)
			default:
				if background {
					continue
				}
				before := s.VerifSegmentIDs()
				err := s.VerifCompactNow()
				after := s.VerifSegmentIDs()
				consumed := m.noteCompaction(before, after)
				log = append(log, fmt.Sprintf("compact -> err=%v consumed=%v segments now %v", err, consumed, after))
				if err != nil {
					rep("store.compaction-error", err.Error())
				}
				if len(consumed) > 0 {
					compactions++
					r.Count("ops:compaction-ran", 1)
				} else {
					r.Count("ops:compaction-skipped", 1)
				}
			}
			probe("after-op")
		}
		if background && !dead {
			// let background flushes settle, then look once more (visibility must hold at every moment anyway)
			time.Sleep(20 * time.Millisecond)
			probe("after-settle")
		}
		if r.WantSample() && ci%30 == 1 {
			l := log
			if len(l) > 12 {
				l = l[:12]
			}
			r.Sample(map[string]any{"stream": "history", "params": p.String(), "background_flush": background, "ops": len(log), "log_head": l})
		}
		r.Count("histories", 1)
		r.Count("histories:with-compaction", int64(min(compactions, 1)))
		r.Eval(rotations > 0 && flushes > 0 && evictSearch > 0 && removals > 0, ev.Digest(p.String(), background, len(log), ci))
	})
	runC08TrainLate(r)
	runC08Schedules(r)
	runC08Schedules2(r)
}

// runC08TrainLate: a store whose vector template needs training is opened UNTRAINED; documents without a vector
// (text / metadata only) are acknowledged first, then the application trains through store.Train, then adds vector
// documents. Everything acknowledged stays visible at every step, also after Flush and cache eviction.
func runC08TrainLate(r *ev.Run) { runTrainLate(r, false) }

// runTrainLate with restart = true (C09's stream of the same name) goes on after the Flush: Close, then a new Open with a
// freshly constructed template that was trained before Open, and everything acknowledged must still be found.
func runTrainLate(r *ev.Run, restart bool) {
	r.Cases("train-late", r.Pick(16, 200), func(ci int, rng *rand.Rand) {
		p := storeParams{VecKind: "ivf", Text: true, Meta: true, Dim: 2 + rng.IntN(3), Metric: allMetrics[rng.IntN(3)], CompactionThreshold: 1000,
			MemtableSizeLimit: []int64{1 << 20, 700}[rng.IntN(2)], FlushThreshold: 1 << 40, Nlist: 2 + rng.IntN(2), ivfUntrained: true}
		for i := 0; i < 40; i++ {
			v := make([]float32, p.Dim)
			for j := range v {
				v[j] = float32(rng.NormFloat64())
			}
			v[0] += float32(i%p.Nlist) * 6
			p.ivfTrain = append(p.ivfTrain, v)
		}
		dir, err := os.MkdirTemp("", "verif-c08t-*")
		if err != nil {
			panic(err)
		}
		defer os.RemoveAll(dir)
		var log []string
		rep := func(sig, what string) {
			r.ViolationAt("train-late", ci, sig, p.String()+": "+what, map[string]any{"log": log})
		}
		s, err := p.open(dir)
		if err != nil {
			rep("store.open-error", err.Error())
			return
		}
		defer func() { s.Close() }()
		ids := newIDGen(rng)
		ids.min = 1 << 24
		acked, ever := map[uint32]bool{}, map[uint32]bool{}
		withVec := map[uint32]bool{}
		trained := false
		lostSig := "store.acknowledged-document-invisible"
		check := func(when string) {
			// text and metadata see every acknowledged document; the vector query sees those that carry a vector
			pp := p
			pp.VecKind = ""
			a := searchAllModalities(s, pp)
			if a.Err != nil {
				rep("store.search-error", when+": "+a.Err.Error())
				return
			}
			if missing, foreign := a.check(acked, ever); len(missing) > 0 || len(foreign) > 0 {
				rep(lostSig, fmt.Sprintf("%s: missing %v, never added %v", when, missing, foreign))
			}
			if len(withVec) > 0 {
				q := make([]float32, p.Dim)
				q[0] = 1
				res, err := s.NewSearch().WithVector(q).WithK(bigK).WithNProbes(p.Nlist).Execute()
				if err != nil {
					rep("store.search-error", when+": vector query: "+err.Error())
					return
				}
				got := map[uint32]bool{}
				for _, x := range res {
					got[x.ID] = true
				}
				for id := range withVec {
					if !got[id] {
						rep(lostSig, fmt.Sprintf("%s: document %d (with vector) is not returned by the full-probe vector query", when, id))
						break
					}
				}
			}
			// a vector + text query matches every document through its text, whichever part of the store holds it
			if trained {
				q := make([]float32, p.Dim)
				q[0] = 1
				res, err := s.NewSearch().WithVector(q).WithText("common").WithK(bigK).WithNProbes(p.Nlist).Execute()
				if err != nil {
					rep("store.search-error", when+": vector+text query: "+err.Error())
					return
				}
				got := map[uint32]bool{}
				for _, x := range res {
					got[x.ID] = true
				}
				for _, id := range sortedKeys(acked) {
					if !got[id] {
						rep(lostSig, fmt.Sprintf("%s: document %d (vector=%v) is not returned by a vector+text query whose text matches it", when, id, withVec[id]))
						break
					}
				}
			}
			r.Count("probes:train-late:"+when, 1)
		}
		add := func(vec bool) bool {
			d := genStoreDoc(rng, p, ids.next(), "t")
			if !vec {
				d.Vec = nil
			}
			ever[d.ID] = true
			err := s.AddWithID(d.ID, d.Vec, d.Text, d.Meta)
			log = append(log, fmt.Sprintf("add %d vec=%v -> %v", d.ID, vec, err))
			if err != nil {
				rep("store.add-error", fmt.Sprintf("AddWithID(%d, vector=%v): %v", d.ID, vec, err))
				return false
			}
			acked[d.ID] = true
			if vec {
				withVec[d.ID] = true
			}
			return true
		}
		for i := 0; i < 1+rng.IntN(4); i++ {
			if !add(false) {
				return
			}
		}
		if rng.IntN(3) == 0 {
			s.VerifRotate()
			log = append(log, "rotate")
			add(false)
		}
		check("before-train")
		if err := s.Train(p.ivfTrain); err != nil {
			rep("store.train-error", err.Error())
			return
		}
		log = append(log, "Train -> nil")
		trained = true
		check("after-train")
		for i := 0; i < 2+rng.IntN(5); i++ {
			if !add(rng.IntN(4) > 0) {
				return
			}
		}
		check("after-more-adds")
		if err := s.Flush(); err != nil {
			rep("store.flush-error", err.Error())
			return
		}
		log = append(log, "Flush -> nil")
		check("after-flush")
		s.VerifEvictAllCaches()
		check("after-evict")
		if restart {
			// a few more documents that only Close will persist, then the restart
			for i := 0; i < rng.IntN(3); i++ {
				if !add(rng.IntN(2) == 0) {
					return
				}
			}
			if err := s.Close(); err != nil {
				rep("store.close-error", err.Error())
				return
			}
			log = append(log, "Close -> nil")
			p2 := p
			p2.ivfUntrained = false // the application restarts with a template it trains before Open
			s2, err := p2.open(dir)
			if err != nil {
				rep("store.open-error", "reopen with a trained template: "+err.Error())
				return
			}
			s = s2
			lostSig = "store.durable-document-lost.after-reopen"
			check("after-restart")
			check("after-restart-second-search")
			r.Count("restarts:store-trained-late-reopened-with-trained-template", 1)
		}
		r.Eval(true, ev.Digest("train-late", p.String(), len(log), ci))
	})
}

func boundaryTie(res []comet.HybridSearchResult, k int) bool {
	// res is the reference answer for k (descending score = farthest first): a tie is possible whenever the
	// k-th and a (k+1)-th candidate could share a distance; we cannot see the (k+1)-th here, so be conservative
	// only for exact duplicates inside the answer
	for i := 1; i < len(res); i++ {
		if res[i].Score == res[i-1].Score {
			return true
		}
	}
	return false
}

// ---------------------------------------------------------------------------------------------
// targeted schedules + structural ownership monitor (sequential: one process-wide hook handler)
// ---------------------------------------------------------------------------------------------

// ownership tracks which owner holds which sub-index instance (pointer identity).
type ownership struct {
	mu     sync.Mutex
	owners map[any]string
	shared []string
	tmpl   map[any]bool
}

func (o *ownership) claim(owner string, h comet.HybridSearchIndex) {
	o.mu.Lock()
	defer o.mu.Unlock()
	for _, inst := range []any{h.VectorIndex(), h.TextIndex(), h.MetadataIndex()} {
		if inst == nil || isNilIface(inst) {
			continue
		}
		if o.tmpl[inst] {
			o.shared = append(o.shared, fmt.Sprintf("%s uses a template object itself (%T)", owner, inst))
		}
		if prev, ok := o.owners[inst]; ok && prev != owner {
			o.shared = append(o.shared, fmt.Sprintf("%T instance owned by %s is also used by %s", inst, prev, owner))
		}
		o.owners[inst] = owner
	}
}

func isNilIface(x any) bool {
	switch v := x.(type) {
	case comet.VectorIndex:
		return v == nil
	case comet.TextIndex:
		return v == nil
	case comet.MetadataIndex:
		return v == nil
	}
	return false
}

var schedulePoints = []string{
	"memq.add.picked", "memtable.add.prelock", "memtable.add.locked", "flush.begin", "crash:flush.create.hybrid", "crash:flush.create.vector", "crash:flush.written",
	"crash:flush.close.vector", "crash:flush.close.hybrid", "crash:flush.added", "flush.registered", "flush.dropped",
	"segment.load.begin", "segment.load.instances", "segment.load.done", "search.listed-memtables", "search.listed-segments", "memq.list", "segmgr.list",
	"compact.begin", "crash:compact.create.hybrid", "crash:compact.written", "crash:compact.added", "crash:compact.removed", "crash:delete.before", "compact.end",
	// "@roomy": the same point with a memtable limit far above the workload, so the paused write sits in a memtable that
	// already holds documents (with the tiny limit nearly every add rotates first and finds an empty one)
	"memq.add.picked@roomy", "memtable.add.prelock@roomy", "memtable.add.locked@roomy", "flush.begin@roomy", "search.listed-memtables@roomy",
}

var scheduleActions = []string{"add", "add-forcing-rotation", "search-all", "flush", "evict", "remove-newest", "flush-then-rotating-adds"}

// second-level pause points by first action: the points that action passes through
var schedulePoints2 = map[string][]string{
	"add":                      {"memq.add.picked", "memtable.add.prelock", "memtable.add.locked"},
	"add-forcing-rotation":     {"memq.add.picked", "memtable.add.prelock", "memtable.add.locked", "memq.rotate"},
	"flush":                    {"flush.begin", "crash:flush.create.hybrid", "crash:flush.create.text", "crash:flush.written", "crash:flush.close.metadata", "crash:flush.close.hybrid", "crash:flush.added", "flush.registered", "flush.dropped"},
	"flush-then-rotating-adds": {"flush.begin", "crash:flush.written", "crash:flush.added", "flush.registered", "flush.dropped", "memq.rotate"},
	"search-all":               {"memq.list", "segmgr.list", "search.listed-memtables", "search.listed-segments", "segment.load.begin", "segment.load.instances", "segment.load.done"},
	"remove-newest":            {"store.remove.picked"},
}

// runC08Schedules2: sampled depth-2 targeted schedules (DESIGN §3.5). The primary operation is paused at point P1 while
// action A1 runs beside it; A1 is itself paused at P2 (a point on its own path) while A2 runs beside A1. Three
// operations are in flight at once, each stopped between two of the store's critical sections. Same oracle as depth 1.
func runC08Schedules2(r *ev.Run) { runDepth2Schedules(r, r.Pick(60, 900), true) }

// withCompaction = false leaves out the first-level points inside compaction (C11: the recorded compaction finding F14
// belongs to C08 / C10, so C11's schedules never compact)
func runDepth2Schedules(r *ev.Run, n int, withCompaction bool) {
	schedulePoints := schedulePoints
	if !withCompaction {
		var keep []string
		for _, p := range schedulePoints {
			if !strings.Contains(p, "compact") && p != "crash:delete.before" {
				keep = append(keep, p)
			}
		}
		schedulePoints = keep
	}
	ctl := newHookCtl()
	ctl.install()
	defer ctl.uninstall()
	own := &ownership{owners: map[any]string{}, tmpl: map[any]bool{}}
	firsts := []string{"add", "add-forcing-rotation", "flush", "flush-then-rotating-adds", "search-all", "remove-newest"}
	sigs := map[string]bool{}
	r.Cases("schedule2", n, func(i int, rng *rand.Rand) {
		p1 := schedulePoints[rng.IntN(len(schedulePoints))]
		a1 := firsts[rng.IntN(len(firsts))]
		p2s := schedulePoints2[a1]
		p2 := p2s[rng.IntN(len(p2s))]
		a2 := scheduleActions[rng.IntN(len(scheduleActions))]
		if sig := runOneSchedule(r, ctl, own, i, rng, p1, a1, p2, a2); sig != "" {
			sigs[sig] = true
		}
	})
	r.Extra("distinct_depth2_interleaving_signatures", len(sigs))
}

func runC08Schedules(r *ev.Run) {
	reps := r.Pick(1, 6)
	ctl := newHookCtl()
	ctl.install()
	defer ctl.uninstall()
	own := &ownership{owners: map[any]string{}, tmpl: map[any]bool{}}
	memN, loadN := 0, 0
	var ownMu sync.Mutex
	ctl.observers = append(ctl.observers, func(point string, args []any) {
		ownMu.Lock()
		defer ownMu.Unlock()
		switch point {
		case "memtable.created":
			memN++
			own.claim(fmt.Sprintf("memtable#%d", memN), args[0].(comet.HybridSearchIndex))
		case "segment.load.instances":
			loadN++
			own.claim(fmt.Sprintf("segment-%d-load#%d", args[0], loadN), args[1].(comet.HybridSearchIndex))
		case "compact.instances":
			loadN++
			own.claim(fmt.Sprintf("compaction-output#%d", loadN), args[0].(comet.HybridSearchIndex))
		}
	})
	total := reps * len(schedulePoints) * len(scheduleActions)
	sigs := map[string]bool{}
	r.Cases("schedule", total, func(i int, rng *rand.Rand) {
		point := schedulePoints[(i/len(scheduleActions))%len(schedulePoints)]
		action := scheduleActions[i%len(scheduleActions)]
		if sig := runOneSchedule(r, ctl, own, i, rng, point, action); sig != "" {
			sigs[sig] = true
		}
	})
	r.Extra("distinct_interleaving_signatures", len(sigs))
	own.mu.Lock()
	shared := append([]string(nil), own.shared...)
	nInst := len(own.owners)
	own.mu.Unlock()
	r.Count("structural:instances-tracked", int64(nInst))
	r.Count("structural:shared-instance-events", int64(len(shared)))
	if len(shared) > 0 {
		r.ViolationAt("schedule", 0, "store.index-instance-shared-between-owners", fmt.Sprintf("%d sharing events, e.g. %s", len(shared), shared[0]), map[string]any{"events": shared[:min(len(shared), 10)]})
	}
	for p, c := range ctl.snapshotCounts() {
		r.Count("hook-hits:"+p, c)
	}
}

func runOneSchedule(r *ev.Run, ctl *hookCtl, own *ownership, ci int, rng *rand.Rand, point, action string, second ...string) (interleaving string) {
	// second = (point2, action2): depth-2 schedule — the action started beside the paused primary operation is itself
	// paused at the first hit of point2 (whichever goroutine gets there first) while action2 runs beside it
	stream, point2, action2 := "schedule", "", ""
	if len(second) == 2 {
		stream, point2, action2 = "schedule2", second[0], second[1]
	}
	p := storeParams{VecKind: "flat", Text: true, Meta: true, Dim: 3, Metric: comet.Euclidean, CompactionThreshold: 2,
		MemtableSizeLimit: 700, FlushThreshold: 1 << 40}
	pointLabel := point
	if strings.HasSuffix(point, "@roomy") {
		point = strings.TrimSuffix(point, "@roomy")
		p.MemtableSizeLimit = 1 << 20
	}
	dir, err := os.MkdirTemp("", "verif-c08s-*")
	if err != nil {
		panic(err)
	}
	defer os.RemoveAll(dir)
	cfg, _ := p.freshConfig(dir)
	own.mu.Lock()
	own.tmpl[cfg.VectorIndexTemplate], own.tmpl[cfg.TextIndexTemplate], own.tmpl[cfg.MetadataIndexTemplate] = true, true, true
	own.mu.Unlock()
	s, err := comet.OpenPersistentHybridIndex(cfg)
	if err != nil {
		r.ViolationAt("schedule", ci, "store.open-error", err.Error(), nil)
		return
	}
	defer s.Close()
	m := newStoreModel()
	var logMu sync.Mutex
	var log []string
	addLog := func(f string, a ...any) {
		logMu.Lock()
		log = append(log, fmt.Sprintf(f, a...))
		logMu.Unlock()
	}
	repf := func(sig, what string) {
		logMu.Lock()
		l := append([]string(nil), log...)
		logMu.Unlock()
		if point2 != "" {
			r.ViolationAt(stream, ci, sig, fmt.Sprintf("point=%s action=%s then point=%s action=%s: %s", pointLabel, action, point2, action2, what), map[string]any{"point": pointLabel, "action": action, "point2": point2, "action2": action2, "log": l})
			return
		}
		r.ViolationAt("schedule", ci, sig, fmt.Sprintf("point=%s action=%s: %s", pointLabel, action, what), map[string]any{"point": pointLabel, "action": action, "log": l})
	}
	ids := newIDGen(rng)
	ids.min = 1 << 24
	var mmu sync.Mutex
	// snap: the model as of now; a search is held to what had been acknowledged before it began, and an id
	// added concurrently with it may legitimately show up too (ever is shared knowledge, so take it late)
	snap := func() *storeModel {
		mmu.Lock()
		defer mmu.Unlock()
		return m.snapshot()
	}
	everNow := func() map[uint32]bool {
		mmu.Lock()
		defer mmu.Unlock()
		out := make(map[uint32]bool, len(m.ever))
		for k := range m.ever {
			out[k] = true
		}
		return out
	}
	removalBegun := map[uint32]bool{}
	removedNow := func() map[uint32]bool {
		mmu.Lock()
		defer mmu.Unlock()
		out := make(map[uint32]bool, len(removalBegun))
		for k := range removalBegun {
			out[k] = true
		}
		return out
	}
	add := func(tag string, big bool) {
		d := genStoreDoc(rng, p, ids.next(), tag)
		mmu.Lock()
		m.ever[d.ID] = true // the add has begun: a concurrent search may already see it
		mmu.Unlock()
		if big {
			d.Text += fmt.Sprintf(" pad%0600d", 1) // ~600 extra bytes: forces a rotation
		}
		err := s.AddWithID(d.ID, cloneF32(d.Vec), d.Text, d.Meta)
		addLog("%s: add %d -> %v", tag, d.ID, err)
		if err != nil {
			repf("store.add-error", fmt.Sprintf("%s: AddWithID(%d) of a valid document failed: %v", tag, d.ID, err))
			return
		}
		mmu.Lock()
		m.live[d.ID], m.ever[d.ID], m.inMem[d.ID] = d, true, true
		mmu.Unlock()
	}
	// prelude: two flushed segments (so compaction has work), one frozen memtable, a few writable documents
	for seg := 0; seg < 2; seg++ {
		for i := 0; i < 3; i++ {
			add("prelude", false)
		}
		before := s.VerifSegmentIDs()
		if err := s.Flush(); err != nil {
			repf("store.flush-error", err.Error())
			return
		}
		m.noteFlush(dir, p, before, s.VerifSegmentIDs())
	}
	for i := 0; i < 3; i++ {
		add("prelude", false)
	}
	s.VerifRotate()
	add("prelude", false)
	s.VerifEvictAllCaches()

	var besideDone, beside2Done chan struct{}
	inTime, inTime2 := false, false
	var t2 *hookTarget
	var b2mu sync.Mutex // the second target may fire on any goroutine
	perform := func(action, tag string) {
		switch action {
		case "add":
			add(tag, false)
		case "add-forcing-rotation":
			add(tag, true)
		case "search-all":
			checkStoreVisibility(repf, r, s, p, snap(), tag+":"+point, everNow, removedNow)
		case "flush":
			err := s.Flush()
			addLog("%s: Flush -> %v", tag, err)
			if err != nil {
				repf("store.flush-error", tag+": "+err.Error())
			}
		case "flush-then-rotating-adds":
			// a second flush pass overlapping the paused one, then writes that rotate the queue before it resumes
			err := s.Flush()
			addLog("%s: Flush -> %v", tag, err)
			if err != nil {
				repf("store.flush-error", tag+": "+err.Error())
			}
			for i := 0; i < 3; i++ {
				add(tag, true)
			}
		case "evict":
			s.VerifEvictAllCaches()
			addLog("%s: evict", tag)
		case "remove-newest":
			mmu.Lock()
			live := sortedKeys(m.liveSet())
			var id uint32
			found := false
			for i := len(live) - 1; i >= 0; i-- {
				if !removalBegun[live[i]] {
					id, found = live[i], true
					break
				}
			}
			if found {
				removalBegun[id] = true // from now on no search owes this document
			}
			mmu.Unlock()
			if found {
				err := s.Remove(id)
				addLog("%s: remove %d -> %v", tag, id, err)
				mmu.Lock()
				if err == nil {
					delete(m.live, id)
					m.removed[id] = true
				} else {
					delete(removalBegun, id) // a refused removal changes nothing: owed again from here on
				}
				mmu.Unlock()
			}
		}
	}
	ctl.resetTrace(true)
	grace := 150 * time.Millisecond
	if point2 != "" {
		grace = 450 * time.Millisecond // room for the nested pause
	}
	ctl.setTarget(point, 1, func(args []any) {
		if r.Verbose() {
			addLog("at %s: memtables=%d segments=%v", point, s.VerifMemtableCount(), s.VerifSegmentIDs())
		}
		if point2 != "" {
			t2 = ctl.addTarget(point2, 1, func([]any) {
				ok, ch := runBeside(func() { perform(action2, "beside2") }, 150*time.Millisecond)
				b2mu.Lock()
				inTime2, beside2Done = ok, ch
				b2mu.Unlock()
			})
		}
		inTime, besideDone = runBeside(func() { perform(action, "beside") }, grace)
	})
	// primary operations: drive every path that contains hook points
	add("primary", false)
	checkStoreVisibility(repf, r, s, p, snap(), "primary-search", everNow, removedNow)
	if err := s.Flush(); err != nil {
		repf("store.flush-error", err.Error())
	}
	addLog("primary: Flush")
	mmu.Lock()
	m.inMem = map[uint32]bool{}
	mmu.Unlock()
	checkStoreVisibility(repf, r, s, p, snap(), "primary-search-after-flush", everNow, removedNow)
	fired := ctl.fired()
	if !fired {
		// compaction points: run a compaction as the primary operation (documents only in consumed segments are F14)
		before := s.VerifSegmentIDs()
		// learn which documents live in which segment, and mark those whose only copies sit in the segments the
		// compaction is about to consume (the oldest CompactionThreshold ones) BEFORE it runs: a search that is
		// blocked by the compaction's critical section resumes right after it
		mmu.Lock()
		if err := m.noteFlush(dir, p, nil, before); err != nil {
			mmu.Unlock()
			repf("store.segment-unreadable-after-flush", err.Error())
			return
		}
		if len(before) >= p.CompactionThreshold {
			m.noteCompaction(before, before[p.CompactionThreshold:])
		}
		mmu.Unlock()
		err := s.VerifCompactNow()
		after := s.VerifSegmentIDs()
		addLog("primary: compact -> %v (%v -> %v)", err, before, after)
		fired = ctl.fired()
	}
	ctl.clearTarget()
	if besideDone != nil {
		select {
		case <-besideDone:
		case <-time.After(60 * time.Second):
			repf("store.deadlock-or-hang", "the action started beside the paused operation did not finish within 60 s after the operation resumed")
			return
		}
	}
	fired2 := false
	if t2 != nil {
		fired2 = ctl.targetDone(t2)
		ctl.clearTarget() // nothing may arm beside2Done from here on
		var ch2 chan struct{}
		for w := 0; fired2 && w < 400; w++ { // fired but runBeside still inside its grace period: wait for the channel to be published
			b2mu.Lock()
			ch2 = beside2Done
			b2mu.Unlock()
			if ch2 != nil {
				break
			}
			time.Sleep(5 * time.Millisecond)
		}
		if fired2 && ch2 != nil {
			select {
			case <-ch2:
			case <-time.After(60 * time.Second):
				repf("store.deadlock-or-hang", "the second action (run beside the first one) did not finish within 60 s after everything else had returned")
				return
			}
		}
	}
	if !fired {
		r.Count("schedules:point-not-reached:"+pointLabel, 1)
		r.Inconclusive("hook point not reached: " + pointLabel)
		return
	}
	if point2 != "" {
		if !fired2 {
			// the first action never passed through point2 (nor did anything else): what ran is a depth-1 schedule
			r.Count("schedules2:second-point-not-reached", 1)
		} else if b2mu.Lock(); inTime2 {
			b2mu.Unlock()
			r.Count("schedules2:second-action-ran-while-first-action-paused", 1)
		} else {
			b2mu.Unlock()
			r.Count("schedules2:second-action-blocked-until-resume", 1)
		}
	}
	if inTime {
		r.Count("schedules:action-ran-while-paused", 1)
	} else {
		r.Count("schedules:action-blocked-until-resume", 1)
	}
	// afterwards everything acknowledged must be visible, now and after eviction
	checkStoreVisibility(repf, r, s, p, snap(), "after-schedule", everNow, removedNow)
	s.VerifEvictAllCaches()
	checkStoreVisibility(repf, r, s, p, snap(), "after-schedule-evicted", everNow, removedNow)
	r.Count("schedules:"+action, 1)
	if r.Verbose() {
		logMu.Lock()
		fmt.Printf("schedule %s/%s inTime=%v log=%q\n", point, action, inTime, log)
		logMu.Unlock()
	}
	sig := ctl.signature()
	if point2 != "" {
		r.Eval(fired2, ev.Digest("sched2", pointLabel, action, point2, action2, sig))
		return pointLabel + "/" + action + "/" + point2 + "/" + action2 + "/" + sig
	}
	r.Eval(true, ev.Digest("sched", pointLabel, action, sig))
	return pointLabel + "/" + action + "/" + sig
}
