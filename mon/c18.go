package mon

import (
	"fmt"
	"math"
	"math/rand/v2"
	"sync/atomic"

	"github.com/wizenheimer/comet"

	"verif/internal/ev"
)

func init() { register("C18", "exploration", runC18) }

const eps32 = 1.0 / (1 << 24)

// genMagVec draws a vector whose components have magnitude ~scale.
func genMagVec(rng *rand.Rand, dim int, scale float64) []float32 {
	v := make([]float32, dim)
	mode := rng.IntN(6)
	for i := range v {
		switch mode {
		case 0, 1, 2: // gaussian
			v[i] = float32(rng.NormFloat64() * scale)
		case 3: // small integers
			v[i] = float32(float64(rng.IntN(7)-3) * scale)
		case 4: // one-hot-ish
			if i == 0 {
				v[rng.IntN(dim)] = float32(scale * (1 + rng.Float64()))
			}
		case 5: // all equal
			v[i] = float32(scale)
		}
	}
	allZero := true
	for _, x := range v {
		if x != 0 {
			allZero = false
		}
	}
	if allZero {
		v[rng.IntN(dim)] = float32(scale)
	}
	return v
}

func randScale(rng *rand.Rand) float64 { return math.Pow(10, rng.Float64()*12-6) }

func randDim(rng *rand.Rand) int {
	switch rng.IntN(5) {
	case 0:
		return 1 + rng.IntN(4)
	case 1:
		return 1 + rng.IntN(32)
	case 2:
		return 1 + rng.IntN(128)
	case 3:
		return []int{1, 2, 3, 7, 8, 16, 64, 127, 128, 256, 511, 512}[rng.IntN(12)]
	default:
		return 1 + rng.IntN(512)
	}
}

// cloneF32 copies v; nil stays nil and an empty non-nil slice stays empty and non-nil (the two are different inputs).
// Every copy is a WINDOW into a slightly larger buffer whose tail holds garbage (as rows of a matrix or slices of an
// arena are): code that looks behind len(v) - unrolled loops re-slicing to a multiple of four, append-based "copies" -
// then computes with the garbage, which every oracle downstream notices.
func cloneF32(v []float32) []float32 {
	if v == nil {
		return nil
	}
	buf := make([]float32, len(v)+3)
	g := float32(cloneGarbage.Add(1)%1000) + 0.5 // different behind every copy: garbage in two operands must not cancel
	buf[len(v)], buf[len(v)+1], buf[len(v)+2] = 1e6+g, -g*1e3, g
	copy(buf, v)
	return buf[:len(v)]
}

var cloneGarbage atomic.Int64

func sameBits(a, b []float32) bool {
	if len(a) != len(b) {
		return false
	}
	for i := range a {
		if math.Float32bits(a[i]) != math.Float32bits(b[i]) {
			return false
		}
	}
	return true
}

func l2ref(a, b []float32) float64 {
	var s float64
	for i := range a {
		d := float64(a[i]) - float64(b[i])
		s += d * d
	}
	return math.Sqrt(s)
}

func normRef(a []float32) float64 {
	var s float64
	for _, x := range a {
		s += float64(x) * float64(x)
	}
	return math.Sqrt(s)
}

func cosDistRef(a, b []float32) float64 {
	var dot float64
	for i := range a {
		dot += float64(a[i]) * float64(b[i])
	}
	c := dot / (normRef(a) * normRef(b))
	if c > 1 {
		c = 1
	}
	if c < -1 {
		c = -1
	}
	return 1 - c
}

// relTolL2 is the relative tolerance of a float32 L2 distance over dim terms.
func relTolL2(dim int) float64 { return 4 * float64(dim+4) * eps32 }

// absTolCos is the absolute tolerance of a float32 cosine distance between float32-normalised vectors.
func absTolCos(dim int) float64 { return 6 * float64(dim+8) * eps32 }

func runC18(r *ev.Run) {
	r.Rule = "case = (dim 1..512, magnitudes 1e-6..1e6, relation in {random, equal, opposite, orthogonal, nearly-parallel, scaled}) " +
		"with every law of C18 checked against a float64 recomputation; non-trivial = all laws were evaluated on finite vectors; distinct by (dim, relation, first components)"
	r.Assumptions = []string{"float64 recomputation from the same float32 inputs is the oracle",
		"tolerances: L2 relative 4(dim+4)2^-24, cosine absolute 6(dim+8)2^-24"}
	n := r.Pick(20000, 1500000)
	l2, _ := comet.NewDistance(comet.Euclidean)
	l2sq, _ := comet.NewDistance(comet.L2Squared)
	cos, _ := comet.NewDistance(comet.Cosine)
	if _, err := comet.NewDistance("nope"); err == nil {
		r.ViolationAt("laws", 0, "newdistance.unknown-kind-accepted", "NewDistance accepted an unknown kind", nil)
	}
	relations := []string{"random", "equal", "opposite", "orthogonal", "nearly-parallel", "scaled"}
	r.CasesParallel("laws", n, 16, func(i int, rng *rand.Rand) {
		dim := randDim(rng)
		rel := relations[rng.IntN(len(relations))]
		if dim == 1 && (rel == "orthogonal" || rel == "nearly-parallel") {
			rel = "random"
		}
		sa := randScale(rng)
		a := genMagVec(rng, dim, sa)
		var b []float32
		switch rel {
		case "random":
			b = genMagVec(rng, dim, randScale(rng))
		case "equal":
			b = cloneF32(a)
		case "opposite":
			b = make([]float32, dim)
			for j := range a {
				b[j] = -a[j]
			}
		case "orthogonal":
			// Gram-Schmidt of a random vector against a, in float64
			g := genMagVec(rng, dim, sa)
			var dot, na float64
			for j := range a {
				dot += float64(a[j]) * float64(g[j])
				na += float64(a[j]) * float64(a[j])
			}
			b = make([]float32, dim)
			nz := false
			for j := range a {
				b[j] = float32(float64(g[j]) - dot/na*float64(a[j]))
				if b[j] != 0 {
					nz = true
				}
			}
			if !nz || normRef(b) < 1e-3*sa {
				b = genMagVec(rng, dim, sa)
				rel = "random"
			}
		case "nearly-parallel":
			g := genMagVec(rng, dim, sa)
			b = make([]float32, dim)
			for j := range a {
				b[j] = a[j] + float32(1e-4*float64(g[j]))
			}
		case "scaled":
			s := float32(math.Pow(10, rng.Float64()*4-2))
			b = make([]float32, dim)
			for j := range a {
				b[j] = a[j] * s
			}
			if normRef(b) == 0 || math.IsInf(normRef(b), 0) {
				b = cloneF32(a)
			}
		}
		c := genMagVec(rng, dim, randScale(rng))
		a0, b0, c0 := cloneF32(a), cloneF32(b), cloneF32(c)
		wit := func() any {
			if dim <= 16 {
				return map[string]any{"dim": dim, "rel": rel, "a": a0, "b": b0, "c": c0}
			}
			return map[string]any{"dim": dim, "rel": rel, "a_head": a0[:8], "b_head": b0[:8]}
		}
		fail := func(sig, what string) { r.ViolationAt("laws", i, sig, what, wit()) }
		if r.WantSample() && i%977 == 0 {
			r.Sample(wit())
		}

		// --- Euclidean family ---
		dab := float64(l2.Calculate(a, b))
		dba := float64(l2.Calculate(b, a))
		dbc := float64(l2.Calculate(b, c))
		dac := float64(l2.Calculate(a, c))
		ref := l2ref(a, b)
		rt := relTolL2(dim)
		if !(dab >= 0) || !(dbc >= 0) || !(dac >= 0) {
			fail("l2.negative-or-nan", fmt.Sprintf("l2 distance not >= 0: %g %g %g", dab, dbc, dac))
		}
		if math.Abs(dab-ref) > rt*ref+1e-30 {
			fail("l2.value", fmt.Sprintf("l2(a,b)=%g, float64 reference %g (dim %d)", dab, ref, dim))
		}
		if ref > 0 {
			r.Max("l2_rel_err_over_tol", math.Abs(dab-ref)/(rt*ref))
		}
		if math.Abs(dab-dba) > rt*ref+1e-30 {
			fail("l2.asymmetric", fmt.Sprintf("l2(a,b)=%g l2(b,a)=%g", dab, dba))
		}
		if d := l2.Calculate(a, a); d != 0 {
			fail("l2.identity", fmt.Sprintf("l2(a,a)=%g", d))
		}
		if dac > dab+dbc+rt*(dab+dbc+dac)+1e-30 {
			fail("l2.triangle", fmt.Sprintf("l2(a,c)=%g > l2(a,b)+l2(b,c)=%g", dac, dab+dbc))
		}
		sq := float64(l2sq.Calculate(a, b))
		if !(sq >= 0) {
			fail("l2sq.negative-or-nan", fmt.Sprintf("l2_squared=%g", sq))
		}
		if math.Abs(sq-ref*ref) > 2*rt*ref*ref+1e-37 && !math.IsInf(sq, 1) {
			fail("l2sq.not-square-of-l2", fmt.Sprintf("l2_squared=%g, l2^2=%g", sq, ref*ref))
		}
		if math.Abs(sq-float64(l2sq.Calculate(b, a))) > 2*rt*ref*ref+1e-37 {
			fail("l2sq.asymmetric", "l2_squared(a,b) != l2_squared(b,a)")
		}
		if d := l2sq.Calculate(b, b); d != 0 {
			fail("l2sq.identity", fmt.Sprintf("l2_squared(b,b)=%g", d))
		}
		// preprocessing of the euclidean family is the identity and never touches its argument
		for name, d := range map[string]comet.Distance{"l2": l2, "l2sq": l2sq} {
			p, err := d.Preprocess(a)
			if err != nil || !sameBits(p, a0) || !sameBits(a, a0) {
				fail(name+".preprocess", "Preprocess changed values or failed")
			}
			x := cloneF32(a)
			if err := d.PreprocessInPlace(x); err != nil || !sameBits(x, a0) {
				fail(name+".preprocess-inplace", "PreprocessInPlace changed an L2 vector or failed")
			}
		}

		// --- cosine ---
		pa, errA := cos.Preprocess(a)
		pb, errB := cos.Preprocess(b)
		pc, errC := cos.Preprocess(c)
		if errA != nil || errB != nil || errC != nil {
			fail("cos.preprocess-rejects-nonzero", fmt.Sprintf("Preprocess failed on a non-zero vector: %v %v %v", errA, errB, errC))
			return
		}
		if !sameBits(a, a0) || !sameBits(b, b0) {
			fail("cos.preprocess-mutates", "Preprocess modified its argument")
		}
		if len(pa) != dim {
			fail("cos.preprocess-length", "Preprocess changed the length")
			return
		}
		ct := absTolCos(dim)
		if n := normRef(pa); math.Abs(n-1) > ct {
			fail("cos.preprocess-not-unit", fmt.Sprintf("|Preprocess(a)|=%g", n))
		}
		x := cloneF32(a)
		if err := cos.PreprocessInPlace(x); err != nil {
			fail("cos.preprocess-inplace-rejects", "PreprocessInPlace failed on non-zero vector")
		} else if n := normRef(x); math.Abs(n-1) > ct {
			fail("cos.preprocess-inplace-not-unit", fmt.Sprintf("|PreprocessInPlace(a)|=%g", n))
		}
		// the caller reuses one buffer: Preprocess(buf), change buf in place, Preprocess(buf) again — the second result
		// is the normalisation of what the buffer holds NOW (anything remembered about the slice is stale)
		{
			buf := cloneF32(a)
			if p1, err := cos.Preprocess(buf); err == nil {
				f := float32([]float64{8, 0.125, 1000, 0.001, 3}[rng.IntN(5)])
				ok := true
				for j := range buf {
					buf[j] *= f
					if math.IsInf(float64(buf[j]), 0) {
						ok = false
					}
				}
				if rng.IntN(3) == 0 {
					ok = ok && cos.PreprocessInPlace(buf) == nil
				}
				if n0 := normRef(buf); ok && n0 > 1e-30 && n0 < 1e30 {
					p2, err := cos.Preprocess(buf)
					if err != nil {
						fail("cos.preprocess-rejects-nonzero", "Preprocess failed on a reused, rescaled buffer")
					} else {
						if n := normRef(p2); math.Abs(n-1) > ct {
							fail("cos.preprocess-not-unit", fmt.Sprintf("|Preprocess(buf)|=%.9g after buf was rescaled in place (first call on the same buffer gave a unit vector)", n))
						}
						for j := range p2 {
							if math.Abs(float64(p2[j])-float64(p1[j])) > 4*ct {
								fail("cos.scale-variant", fmt.Sprintf("Preprocess of a reused buffer rescaled in place by %g: component %d is %g, before %g", f, j, p2[j], p1[j]))
								break
							}
						}
					}
					r.Count("probes:reused-buffer", 1)
				}
			}
		}
		// a raw vector that is ALMOST unit length is still normalised (a "close enough, skip it" shortcut would leave
		// stored vectors and queries on slightly different scales)
		if na := normRef(a); na > 1e-30 && na < 1e30 {
			delta := []float64{1e-6, 1e-5, 1e-4, 2e-4, 4e-4, 1e-3, -1e-4, -4e-4, 3e-3}[rng.IntN(9)]
			nu := make([]float32, dim)
			for i := range nu {
				nu[i] = float32(float64(a[i]) * (1 + delta) / na)
			}
			if n0 := normRef(nu); n0 > 0 {
				if pn, err := cos.Preprocess(nu); err != nil {
					fail("cos.preprocess-rejects-nonzero", "Preprocess failed on an almost-unit vector")
				} else if n := normRef(pn); math.Abs(n-1) > ct {
					fail("cos.preprocess-not-unit", fmt.Sprintf("|Preprocess(v)|=%.9g for |v|=%.9g", n, n0))
				}
				y := cloneF32(nu)
				if err := cos.PreprocessInPlace(y); err != nil {
					fail("cos.preprocess-inplace-rejects", "PreprocessInPlace failed on an almost-unit vector")
				} else if n := normRef(y); math.Abs(n-1) > ct {
					fail("cos.preprocess-inplace-not-unit", fmt.Sprintf("|PreprocessInPlace(v)|=%.9g for |v|=%.9g", n, n0))
				}
				r.Count("probes:almost-unit-vector", 1)
			}
		}
		cab := float64(cos.Calculate(pa, pb))
		cba := float64(cos.Calculate(pb, pa))
		cref := cosDistRef(a, b)
		if !(cab >= 0 && cab <= 2) {
			fail("cos.out-of-range", fmt.Sprintf("cosine distance %g outside [0,2]", cab))
		}
		if cc := float64(cos.Calculate(pa, pc)); !(cc >= 0 && cc <= 2) {
			fail("cos.out-of-range", fmt.Sprintf("cosine distance %g outside [0,2]", cc))
		}
		if math.Abs(cab-cref) > ct {
			fail("cos.value", fmt.Sprintf("cosine(a,b)=%g, 1-cos(theta)=%g (dim %d, rel %s)", cab, cref, dim, rel))
		}
		r.Max("cos_abs_err_over_tol", math.Abs(cab-cref)/ct)
		if math.Abs(cab-cba) > ct {
			fail("cos.asymmetric", fmt.Sprintf("cos(a,b)=%g cos(b,a)=%g", cab, cba))
		}
		if d := float64(cos.Calculate(pa, pa)); math.Abs(d) > ct {
			fail("cos.identity", fmt.Sprintf("cos(a,a)=%g", d))
		}
		// positive-scale invariance of either argument's raw vector
		s := float32(math.Pow(10, rng.Float64()*4-2))
		as := make([]float32, dim)
		for j := range a {
			as[j] = a[j] * s
		}
		if n := normRef(as); n > 0 && !math.IsInf(n, 0) && n > 1e-15 {
			pas, err := cos.Preprocess(as)
			if err != nil {
				fail("cos.preprocess-rejects-nonzero", "Preprocess failed on a scaled non-zero vector")
			} else {
				if d := float64(cos.Calculate(pas, pb)); math.Abs(d-cab) > 2*ct {
					fail("cos.scale-variant", fmt.Sprintf("cos(s*a,b)=%g vs cos(a,b)=%g (s=%g)", d, cab, s))
				}
				if d := float64(cos.Calculate(pb, pas)); math.Abs(d-cab) > 2*ct {
					fail("cos.scale-variant", fmt.Sprintf("cos(b,s*a)=%g vs cos(a,b)=%g (s=%g)", d, cab, s))
				}
			}
		}
		// zero vector rejected
		z := make([]float32, dim)
		if _, err := cos.Preprocess(z); err == nil {
			fail("cos.zero-accepted", "Preprocess accepted the zero vector")
		}
		if err := cos.PreprocessInPlace(z); err == nil {
			fail("cos.zero-accepted", "PreprocessInPlace accepted the zero vector")
		}
		// ... also when some (or all) of its components are NEGATIVE zeros (what Scale(zero, -1) or 0 * -x leaves)
		nz := make([]float32, dim)
		for j := range nz {
			if rng.IntN(2) == 0 || j == 0 {
				nz[j] = float32(math.Copysign(0, -1))
			}
		}
		if out, err := cos.Preprocess(nz); err == nil {
			fail("cos.zero-accepted", fmt.Sprintf("Preprocess accepted a zero vector with negative-zero components: %v -> %v", nz, out))
		}
		if err := cos.PreprocessInPlace(cloneF32(nz)); err == nil {
			fail("cos.zero-accepted", "PreprocessInPlace accepted a zero vector with negative-zero components")
		}

		// --- batch == element-wise (targets: an unrelated vector AND the related one, so that nearly equal
		// query/target pairs with large norms — where an expanded |q|²-2q·t+|t|² form cancels — are covered) ---
		qs := [][]float32{a, b, c}
		for name, d := range map[string]comet.Distance{"l2": l2, "l2sq": l2sq} {
			for ti, target := range [][]float32{c, b, a} {
				got := d.CalculateBatch(qs, target)
				if len(got) != 3 {
					fail(name+".batch-length", "CalculateBatch returned wrong length")
					continue
				}
				for k, q := range qs {
					w := float64(d.Calculate(q, target))
					tol := 2 * rt * w
					if math.Abs(float64(got[k])-w) > tol+1e-37 {
						fail(name+".batch-differs", fmt.Sprintf("target %d: batch[%d]=%g scalar=%g (rel %s)", ti, k, got[k], w, rel))
					}
				}
			}
		}
		// --- batches whose queries are views into ONE row-major matrix (a centroid table, a codebook), in natural order and
		// with the middle rows exchanged / repeated / replaced by a separately allocated vector while the first and the last
		// view stay where they are: batch[i] is the distance of queries[i], wherever its memory lies ---
		if i%4 == 0 {
			n := 3 + rng.IntN(5)
			flat := make([]float32, n*dim, n*dim+rng.IntN(9))
			for j := range flat {
				flat[j] = float32(rng.NormFloat64())
			}
			copy(flat[0:dim], a)
			rows := make([][]float32, n)
			for k := range rows {
				rows[k] = flat[k*dim : (k+1)*dim]
			}
			orders := [][][]float32{append([][]float32(nil), rows...)}
			sw := append([][]float32(nil), rows...)
			x, y := 1+rng.IntN(n-2), 1+rng.IntN(n-2)
			if x == y && n > 3 {
				y = 1 + (x % (n - 2))
			}
			sw[x], sw[y] = sw[y], sw[x]
			rp := append([][]float32(nil), rows...)
			rp[x] = rows[(x+1)%n]
			al := append([][]float32(nil), rows...)
			al[x] = cloneF32(b)
			orders = append(orders, sw, rp, al)
			for oi, qsM := range orders {
				for name, d := range map[string]comet.Distance{"l2": l2, "l2sq": l2sq, "cos": cos} {
					tq, tt := qsM, c
					if name == "cos" {
						tt = pc
						tq = make([][]float32, len(qsM))
						ok := true
						for k := range qsM {
							pq, err := cos.Preprocess(qsM[k])
							if err != nil {
								ok = false
								break
							}
							tq[k] = pq
						}
						if !ok {
							continue
						}
					}
					got := d.CalculateBatch(tq, tt)
					if len(got) != len(tq) {
						fail(name+".batch-length", "CalculateBatch returned wrong length")
						continue
					}
					for k := range tq {
						w := float64(d.Calculate(tq[k], tt))
						if math.Abs(float64(got[k])-w) > 2*rt*math.Max(w, 1e-30)+4*rt {
							fail(name+".batch-differs", fmt.Sprintf("queries are views into one matrix (arrangement %d: 0 natural, 1 two middle rows exchanged, 2 a middle row repeated, 3 a middle row allocated elsewhere): batch[%d]=%g scalar=%g", oi, k, got[k], w))
							break
						}
					}
					r.Count("batches:matrix-backed-queries", 1)
				}
			}
		}
		{
			pqs := [][]float32{pa, pb, pc}
			got := cos.CalculateBatch(pqs, pc)
			if len(got) != 3 {
				fail("cos.batch-length", "CalculateBatch returned wrong length")
			} else {
				for k, q := range pqs {
					w := float64(cos.Calculate(q, pc))
					if math.Abs(float64(got[k])-w) > ct {
						fail("cos.batch-differs", fmt.Sprintf("batch[%d]=%g scalar=%g", k, got[k], w))
					}
				}
			}
			if len(cos.CalculateBatch(nil, pc)) != 0 {
				fail("cos.batch-length", "empty batch returned results")
			}
		}
		// arguments that are windows into larger buffers (rows of a matrix, a reused arena): whatever lies behind
		// len(v) in the backing array is none of the distance function's business
		if i%3 == 0 {
			roomy := func(v []float32) []float32 {
				buf := make([]float32, len(v)+1+rng.IntN(9))
				for j := range buf {
					buf[j] = float32(rng.NormFloat64() * 100)
				}
				copy(buf, v)
				return buf[:len(v)]
			}
			ra, rb := roomy(a), roomy(b)
			rpa, rpb := roomy(pa), roomy(pb)
			for name, d := range map[string]comet.Distance{"l2": l2, "l2sq": l2sq} {
				w, g := d.Calculate(a, b), d.Calculate(ra, rb)
				if math.Float32bits(w) != math.Float32bits(g) {
					fail(name+".depends-on-memory-behind-the-slice", fmt.Sprintf("Calculate on sub-slices of larger buffers = %g, on exact-size copies = %g", g, w))
				}
				wb, gb := d.CalculateBatch([][]float32{a}, b), d.CalculateBatch([][]float32{ra}, rb)
				if len(wb) != 1 || len(gb) != 1 || math.Float32bits(wb[0]) != math.Float32bits(gb[0]) {
					fail(name+".depends-on-memory-behind-the-slice", "CalculateBatch on sub-slices of larger buffers differs from exact-size copies")
				}
			}
			if w, g := cos.Calculate(pa, pb), cos.Calculate(rpa, rpb); math.Float32bits(w) != math.Float32bits(g) {
				fail("cos.depends-on-memory-behind-the-slice", fmt.Sprintf("Calculate on sub-slices of larger buffers = %g, on exact-size copies = %g", g, w))
			}
			if pr, err := cos.Preprocess(ra); err == nil && !sameBits(pr, pa) {
				fail("cos.depends-on-memory-behind-the-slice", "Preprocess of a sub-slice of a larger buffer differs from Preprocess of an exact-size copy")
			}
			r.Count("probes:sub-slices-of-larger-buffers", 1)
		}
		// a batch result belongs to the caller: it must survive the next batch call
		if i%5 == 0 {
			first := l2.CalculateBatch([][]float32{a, b, c}, b)
			keep := cloneF32(first)
			l2sq.CalculateBatch([][]float32{c, a}, a)
			cos.CalculateBatch([][]float32{pa, pb, pc}, pa)
			l2.CalculateBatch([][]float32{c, c, a}, c)
			if !sameBits(first, keep) {
				fail("l2.batch-result-aliasing", "the slice returned by an earlier CalculateBatch changed when later batches were computed")
			}
			r.Count("probes:batch-result-retained", 1)
		}
		// large batches (blocked / tiled / parallel batch kernels change behaviour past a block size)
		if i%4 == 0 {
			nb := []int{1, 2, 7, 31, 32, 33, 63, 64, 65, 100, 129, 257, 1000}[rng.IntN(13)]
			raw := make([][]float32, nb)
			pre := make([][]float32, nb)
			for i := range raw {
				switch i % 4 {
				case 0:
					raw[i], pre[i] = a, pa
				case 1:
					raw[i], pre[i] = b, pb
				case 2:
					raw[i], pre[i] = c, pc
				default:
					v := genMagVec(rng, dim, sa)
					pv, err := cos.Preprocess(v)
					if err != nil {
						v, pv = a, pa
					}
					raw[i], pre[i] = v, pv
				}
			}
			for name, d := range map[string]comet.Distance{"l2": l2, "l2sq": l2sq} {
				got := d.CalculateBatch(raw, b)
				if len(got) != nb {
					fail(name+".batch-length", fmt.Sprintf("CalculateBatch of %d queries returned %d values", nb, len(got)))
					continue
				}
				for k, q := range raw {
					w := float64(d.Calculate(q, b))
					if math.Abs(float64(got[k])-w) > 2*rt*w+1e-37 {
						fail(name+".batch-differs", fmt.Sprintf("batch of %d: batch[%d]=%g scalar=%g", nb, k, got[k], w))
						break
					}
				}
			}
			got := cos.CalculateBatch(pre, pb)
			if len(got) != nb {
				fail("cos.batch-length", fmt.Sprintf("CalculateBatch of %d queries returned %d values", nb, len(got)))
			} else {
				for k, q := range pre {
					w := float64(cos.Calculate(q, pb))
					if math.Abs(float64(got[k])-w) > ct {
						fail("cos.batch-differs", fmt.Sprintf("batch of %d: batch[%d]=%g scalar=%g", nb, k, got[k], w))
						break
					}
				}
			}
			r.Count("probes:large-batch", 1)
		}

		// --- helpers ---
		nr := normRef(a)
		if n := float64(comet.Norm(a)); math.Abs(n-nr) > rt*nr+1e-30 {
			fail("norm.value", fmt.Sprintf("Norm=%g reference %g", n, nr))
		}
		sc := comet.Scale(a, s)
		if len(sc) != dim || !sameBits(a, a0) {
			fail("scale.shape-or-mutation", "Scale changed length or its input")
		} else {
			for j := range a {
				w := float64(a[j]) * float64(s)
				if math.Abs(float64(sc[j])-w) > 2*eps32*math.Abs(w)+1e-44 && !math.IsInf(float64(sc[j]), 0) {
					fail("scale.value", fmt.Sprintf("Scale[%d]=%g want %g", j, sc[j], w))
					break
				}
			}
		}
		nv := comet.Normalize(a)
		if len(nv) != dim || !sameBits(a, a0) {
			fail("normalize.shape-or-mutation", "Normalize changed length or its input")
		} else {
			if n := normRef(nv); math.Abs(n-1) > ct {
				fail("normalize.not-unit", fmt.Sprintf("|Normalize(a)|=%g", n))
			}
			for j := range a {
				w := float64(a[j]) / nr
				if math.Abs(float64(nv[j])-w) > ct*math.Max(math.Abs(w), 1e-3) {
					fail("normalize.direction", fmt.Sprintf("Normalize[%d]=%g want %g", j, nv[j], w))
					break
				}
			}
		}
		y := cloneF32(a)
		comet.NormalizeInPlace(y)
		if n := normRef(y); math.Abs(n-1) > ct {
			fail("normalize-inplace.not-unit", fmt.Sprintf("|NormalizeInPlace(a)|=%g", n))
		}
		zz := make([]float32, dim)
		if out := comet.Normalize(zz); len(out) != dim || normRef(out) != 0 {
			fail("normalize.zero", "Normalize(zero) is not the zero vector of the same length")
		}
		comet.NormalizeInPlace(zz)
		if normRef(zz) != 0 {
			fail("normalize-inplace.zero", "NormalizeInPlace(zero) changed the vector")
		}

		head := a0
		if len(head) > 3 {
			head = head[:3]
		}
		r.Count("tuples:"+rel, 1)
		r.Eval(true, ev.Digest(dim, rel, head))
	})
}
