#!/usr/bin/env python3
"""Regenerates /verif/MANIFEST.json from the table below (single source of truth)."""
import json, os, subprocess
ROOT = os.path.dirname(os.path.dirname(os.path.abspath(__file__)))

# id -> (category, technique, level text, level note, design_ref)
CHECKS = {
 "C01": ("exploration", "runtime monitor: reference-model (brute-force float64 k-NN) comparison over generated Add/Remove/Flush histories; restricted probes decided bit-exactly against the implementation's own complete listing",
         "Held on 300 (quick) / 9000 (thorough) generated histories x 3 metrics x dims 1..64 with ~50k complete and ~260k restricted probes per quick run; thresholds include bit-exact reported scores so <= vs < is decidable. Sampling, not proof.",
         "Oracle: float64 brute force over the model's live set; tolerance scaled to float32 accumulation error (max observed/tolerance reported).", "DESIGN.md §4 C01"),
 "C02": ("exploration", "runtime monitor: per-kind definition check (live ids of the searched clusters, true distance or ADC recomputed from codebooks read via verif accessors), metamorphic node-id / multi-query / flush-invariance checks",
         "Held on 200/5000 histories spread over flat, hnsw, ivf, pq, ivfpq x 3 metrics x construction parameters, with complete, restricted, node-id, bad-node-id, multi-query and flush-invariance probes after every op.",
         "PQ/IVFPQ expected scores recomputed from the index's own codebooks (read-only accessor); HNSW only soundness here (exactness is C12).", "DESIGN.md §4 C02"),
 "C03": ("exploration", "runtime monitor: textbook Okapi BM25 reference model (N, df, avgdl over resident docs) vs every answer over add/replace/remove/flush histories",
         "Held on 300/9000 histories over a hostile vocabulary (repeated tokens, empty/punctuation-only text, non-ASCII, compatibility forms) with ~100k single-query and ~6k multi-query probes per quick run.",
         "Trusted base: UAX#29 segmenter and NFKC tables (same third-party libraries); open corner: a token repeated inside one query may count per occurrence or once.", "DESIGN.md §4 C03"),
 "C04": ("exploration", "runtime monitor: exact set comparison of every filter expression against an ordinary-comparison model over Add/Remove histories",
         "Held on 400/8000 document sets x ~50k filter expressions per quick run (every operator, Not of each, AND lists, OR groups, builder API, operands present/absent, mixed-sign and extreme integers, floats with >2 decimals, empty strings, ':' in values).",
         "Floats generated only where truncation/rounding/floor of v*100 agree; filters on fields the index has never seen are an open corner (error or either typing accepted).", "DESIGN.md §4 C04"),
 "C05": ("exploration", "runtime monitor: hybrid reference model (metadata pre-filter -> exact filtered k-NN / BM25 top-k -> fusion -> ranking) vs every hybrid answer",
         "Held on 250/5000 cases over all 8 sub-index configurations with ~16k hybrid queries per quick run (every combination of vector/text/filter/groups, k, four fusions, three aggregations); boundary ties make a probe soundness-only (counted).",
         "Vector sub-index is flat so 'exact' applies; open corners (one side empty, unknown fields, documents without metadata vs complement filters) accepted both ways.", "DESIGN.md §4 C05"),
 "C06": ("exploration", "runtime monitor: model comparison of the hybrid index and of every sub-index searched directly after each op, plus metamorphic before==after batteries around every failing op; per-kind update clause on 7 index kinds",
         "Held on 300/6000 hybrid histories (failing adds in the 1st and 3rd sub-index, removals of unknown/removed ids, re-adds with flush before/between/after) and 210/4200 per-kind update histories.",
         "Reference = hybrid model of C05; before/after batteries use tie-free complete answers so map-order tie-breaking cannot raise an alarm.", "DESIGN.md §4 C06"),
 "C07": ("exploration", "runtime monitor: differential source-vs-reloaded comparison of a fixed battery of complete answers over generated states of all 8 kinds, through three reader shapes with a trailing sentinel (exact consumption), byte-count checks, concatenated streams, identical continuation histories; plus large (2^14..70000 vectors) and wide (1025..4097 components) flat states and hybrids over trained IVF / PQ / IVFPQ indexes that hold no vector when written",
         "Held (apart from a listed known finding) on 320/8000 states incl. empty, untrained, all-removed and numeric-field-emptied states; each state round-trips 3 readers + a concatenated pair + a continuation.",
         "Differential oracle (the source's own correctness is C01-C06); node-id queries excluded for PQ/IVFPQ; HNSW kept in its exact regime.", "DESIGN.md §4 C07"),
 "C16": ("fault_enumeration", "runtime fault enumeration: every strict prefix of each generated stream (all offsets up to 8 KiB, field boundaries +-1 and a sample beyond) read into a fresh receiver under recover + watchdog; full kind x kind and one-parameter-off mismatch matrix; version patch; every prefix of every component file of a damaged segment opened through the store",
         "Enumerated ~190k prefixes over 96 streams (quick) of all 8 kinds, 672 cross-kind pairings, every one-parameter receiver variant, and the segment clause over every byte prefix of the 4 gzip files of a damaged segment next to an intact one.",
         "Prefixes are cut from streams the implementation itself produced; exhaustive=true only when every offset of every stream of the run was tried.", "DESIGN.md §4 C16"),
 "C08": ("exploration", "runtime monitor: acknowledged-write visibility model over generated sequential store histories (every search twice and again after the next op), differential vector-only id sets vs an in-memory index, hook-driven targeted schedules (action run beside a goroutine paused at each hook point; sampled depth-2 schedules where that action is itself paused while a third runs), refused writes whose ids may never surface, structural instance-ownership monitor",
         "Held (apart from the listed compaction finding) on 120/2500 histories over memtable limits from one document up, synchronous and background flushes, forced rotations, compactions, cache evictions, plus 217/1302 depth-1 targeted schedules over 31 hook points x 7 actions and 60/900 sampled depth-2 schedules; ~14k index instances tracked for sharing.",
         "Background-flush interleavings are whatever the scheduler produces (the oracle does not depend on them); compaction losses are matched per document against the doc->segment map read back from disk.", "DESIGN.md §4 C08"),
 "C09": ("exploration", "runtime monitor: durable-set model over multi-session open/add/flush/close histories, every open with freshly constructed templates, one all-matching query per modality after every reopen (twice), sha256 of earlier segment files and id monotonicity checked after every acknowledged flush (after every Close when the background flush worker is on), a directory image reopened right after every acknowledged mid-session Flush, injected file-creation faults, a store trained late and restarted, an Add acknowledged while an explicit Flush is held inside its segment write, IVF stores reopened with an untrained template",
         "Held on 60/1500 multi-session cases over flat / HNSW / trained IVF / PQ / IVFPQ / no vector template, with and without text and metadata, memtable limits from one document up, every third case with the real background flush worker, compaction thresholds 2..1000; plus 16/200 trained-late restarts.",
         "Reopen in the same process with fresh template objects (new process in the thorough tier); HNSW kept exact per segment, IVF searched at full probe.", "DESIGN.md §4 C09"),
 "C10": ("fault_enumeration", "runtime fault enumeration: directory snapshot at every crash:* hook point of flush / compaction / deletion plus every byte prefix of every in-flight file, each distinct image reopened with fresh templates and checked against the durable-set model, per-segment all-or-nothing and id-reuse checks, a second restart on every image, simultaneous first searches on every fourth image",
         "Enumerated ~110 boundaries and ~9000 distinct crash images per quick run (8 histories with 0-3 completed flushes, interrupted flush or compaction); byte prefixes exhaustive (all files < 4 KiB).",
         "Process-death semantics (page cache survives); files are written sequentially so intermediate states are prefixes; power loss / fsync is outside the property.", "DESIGN.md §4 C10"),
 "C11": ("exploration", "Go race detector over shared-instance stress workloads of all 9 kinds + recorded client-boundary histories checked by an interval form of the visibility sentence and by porcupine (per-id present/absent registers), post-quiescence state check, auto-id uniqueness, hook-driven targeted store schedules (depth 1, sampled depth 2, remove-vs-flush, Close-vs-everything), watchdog with goroutine-dump deadlock classification",
         "Held on 90/1350 concurrent histories (2-16 goroutines, few keys, ~400 ops each) + 8/100 store race-only histories with compaction/eviction/Close + 35/175 targeted schedules + add-vs-rotation+flush and Close-vs-everything schedules, all under -race with 0 reports; overlapping operation pairs per kind are listed in the evidence.",
         "Absence of a race report covers only operation pairs that overlapped; interleavings finer than the hook points are whatever the scheduler produced; watchdog firing without a provable wait cycle is inconclusive.", "DESIGN.md §4 C11"),
 "C12": ("exploration", "runtime monitor: exact k-NN comparison inside the small-graph regime, non-emptiness after every op, BFS reachability invariant on the graph read through a verif accessor at quiescent points, adversarial removal targets chosen on the graph",
         "Held (apart from listed known findings) on 400/8000 exact-regime histories and 120/1500 graphs of up to 300/3000 vertices; each unreachable vertex is classified on the graph so that only the recorded shapes are suppressed.",
         "Reachability asserted only in states without pending soft deletes; the k=n, ef>=n corroboration is an observation, not a verdict (directed edges, upper-layer descent).", "DESIGN.md §4 C12"),
 "C13": ("exploration", "runtime monitor: exact search over the live vectors of every legal choice of the p nearest clusters (centroids read via verif accessor), list-membership invariant after every Add, rank-wise monotonicity in nprobes",
         "Held on 160/4000 histories with nlist 1..32, duplicate-heavy training sets (duplicate centroids, empty clusters), ~10k partial-probe and ~10k full-probe complete listings plus ~40k restricted probes per quick run.",
         "Nearest centroid decided with comet's own Distance (monitored by C18); bit-equal ties: up to 64 legal probe sets tried, otherwise soundness only (counted).", "DESIGN.md §4 C13"),
 "C14": ("exploration", "runtime monitor: nearest-codeword invariant on stored codes, float64 ADC recomputation of every score, quantisation-error bound, crafted self-reconstructing vectors; constructors probed for every nbits 1..16",
         "Held on 480/6000 PQ/IVFPQ histories over M 1..8, every accepted code size, nlist 1..16, training sets from the minimum accepted size up.",
         "Codebooks/centroids/codes read through read-only accessors; code sizes too expensive to train would be counted inconclusive (none accepted any more).", "DESIGN.md §4 C14"),
 "C15": ("exploration", "runtime monitor: measured recall@10 / top-1-in-10 / first-vs-last-tenth recall against FlatIndex on seed-derived Gaussian data sets (3000 points, or 2701..3299 and no round number; ids from 1 or beyond 2^20), compared with the property's own floors",
         "Held on 2/8 data sets (3000 x N(0,1)^16, 100 queries) x 4 approximate kinds x 3 metrics, built through the public API in generation and shuffled order; measured values are written to the evidence.",
         "Statistical clause decided against the property's floors, which sit far below the measured values.", "DESIGN.md §4 C15"),
 "C17": ("exploration", "runtime monitor: free|owned model over generated Open/Close/failed-Open/closed-handle sequences with full directory diffs (LOCK bytes, segment bytes), goroutine races for Open and against Close, a second OS process (cmd/storehelper) as competing owner, RLIMIT_NOFILE fault injection for 'listing fails after the lock was taken', hook-driven hand-over schedules (Close beside a held compaction / a held explicit Flush, Opens beside a Close held between closing and removing its lock file)",
         "Held on 200/3000 sequences (~200 refused opens, ~120 opens failing after the lock, ~200 stale second Closes per quick run), 40/600 race rounds and 4/40 two-process rounds.",
         "Unlistable directory emulated by EMFILE on the ReadDir after LOCK creation (root cannot be denied by chmod); 60 s watchdog per racing operation.", "DESIGN.md §4 C17"),
 "C18": ("exploration", "runtime monitor: metric-law assertions on generated vector tuples vs float64 recomputation",
         "Every law of C18 asserted on 20k (quick) / 1.5M (thorough) generated pairs/triples across dim 1..512 and magnitudes 1e-6..1e6, incl. equal/opposite/orthogonal/nearly-parallel/scaled relations; held-on-what-was-generated, not a proof.",
         "Oracle = float64 recomputation from the same float32 inputs; tolerances scaled to float32 accumulation error (max observed error is reported in the evidence).", "DESIGN.md §4 C18"),
 "C19": ("exploration", "runtime monitor: direct transcription of each aggregation/limit/autocut/fusion/merge law checked on generated lists and map pairs (duplicates, ties, +-Inf, NaN), panics caught as violations, inputs compared before/after",
         "Held on 12k/800k aggregation inputs and as many fusion inputs per run (every kind, every k/cutoff in [-3,len+3], disjoint/nested/equal/partial key sets, random weights and K).",
         "RRF rank is 0-based as in the pinned tree; with tied scores any legal ranking is accepted (bounds check).", "DESIGN.md §4 C19"),
 "C20": ("exploration", "runtime monitor: k-means invariants (count, finiteness, bounding box, determinism, nearest-centroid on observationally converged runs), quantiser round-trip bounds, twice-trained IVF/PQ/IVFPQ search equality",
         "Held on 2.5k/60k k-means runs (duplicates, collinear, k>n, k and maxIter over Z), 20k/600k quantiser batches, 90/1500 twice-trained index pairs.",
         "Convergence decided observationally (identical centroids and mapping for maxIter=m and m+1); nearest-centroid uses comet's Distance (C18).", "DESIGN.md §4 C20"),
}
PENDING = {}

def main():
    props = [json.loads(l) for l in open(os.path.join(ROOT, "properties.jsonl"))]
    hooks_commits = []
    try:
        out = subprocess.check_output(["git", "-C", "/repo", "log", "--format=%H %s"], text=True)
        for line in out.splitlines():
            h, s = line.split(" ", 1)
            if s.startswith("verif:"):
                hooks_commits.append(h)
    except Exception:
        pass
    checks, na = [], []
    for p in props:
        pid = p["id"]
        if pid in CHECKS:
            cat, tech, text, note, ref = CHECKS[pid]
            checks.append({
                "property_id": pid,
                "quick_cmd": f"./check {pid} --tier quick",
                "thorough_cmd": f"./check {pid} --tier thorough",
                "evidence_file": f"/verif/evidence/{pid}.json",
                "replay_cmd_template": f"./check {pid} --replay {{path}}",
                "engine": "mon",
                "level_claimed": {"category": cat, "text": text, "design_ref": ref},
                "level_note": note,
                "technique": tech,
            })
        else:
            na.append({"property_id": pid, "reason": PENDING.get(pid, "monitor not built yet (work in progress; runtime monitoring applies, see DESIGN.md §4)")})
    m = {
        "version": 1,
        "setup_cmd": "./check --build-only",
        "hooks": {
            "guard": "verif (Go build tag)",
            "enable": "go build -tags verif (the ./check driver always builds /repo's working tree with the tag on)",
            "baseline_off_cmd": "cd /repo && GOTOOLCHAIN=local GOFLAGS=-mod=mod GOPROXY=off /root/go/pkg/mod/golang.org/toolchain@v0.0.1-go1.24.2.linux-amd64/bin/go test -vet=off -count=1 -timeout 25m ./...",
            "source_commits": hooks_commits,
            "add_only": True,
        },
        "engines": [{"name": "mon", "path": "/verif/cmd/mon", "serves_properties": [c["property_id"] for c in checks],
                     "kind_free_text": "Go binary built with -tags verif (and -race for C11): seeded workload generators + reference-model / history / invariant monitors over the real comet code; driver ./check"}],
        "checks": checks,
        "not_applicable": na,
        "notes": "Technique family: runtime monitoring and sanitizers only. Known findings: /verif/KNOWN_FINDINGS.txt. Seeds: VERIF_SEED; tiers: VERIF_TIER or --tier.",
    }
    json.dump(m, open(os.path.join(ROOT, "MANIFEST.json"), "w"), indent=1)
    print("wrote MANIFEST.json:", len(checks), "checks,", len(na), "not_applicable")

if __name__ == "__main__":
    main()
