#!/usr/bin/env python3
"""Regenerates /verif/MANIFEST.json from the table below (single source of truth)."""
import json, os, subprocess
ROOT = os.path.dirname(os.path.dirname(os.path.abspath(__file__)))

# id -> (category, technique, level text, level note, design_ref)
CHECKS = {
 "C18": ("exploration", "runtime monitor: metric-law assertions on generated vector tuples vs float64 recomputation",
         "Every law of C18 asserted on 20k (quick) / 1.5M (thorough) generated pairs/triples across dim 1..512 and magnitudes 1e-6..1e6, incl. equal/opposite/orthogonal/nearly-parallel/scaled relations; held-on-what-was-generated, not a proof.",
         "Oracle = float64 recomputation from the same float32 inputs; tolerances scaled to float32 accumulation error (max observed error is reported in the evidence).", "DESIGN.md §4 C18"),
}
PENDING = {}

def main():
    props = [json.loads(l) for l in open(os.path.join(ROOT, "properties.jsonl"))]
    hooks_commits = []
    try:
        out = subprocess.check_output(["git", "-C", "/repo", "log", "--format=%H %s"], text=True)
        for line in out.splitlines():
            h, s = line.split(" ", 1)
            if s.startswith("verif:"):
                hooks_commits.append(h)
    except Exception:
        pass
    checks, na = [], []
    for p in props:
        pid = p["id"]
        if pid in CHECKS:
            cat, tech, text, note, ref = CHECKS[pid]
            checks.append({
                "property_id": pid,
                "quick_cmd": f"./check {pid} --tier quick",
                "thorough_cmd": f"./check {pid} --tier thorough",
                "evidence_file": f"/verif/evidence/{pid}.json",
                "replay_cmd_template": f"./check {pid} --replay {{path}}",
                "engine": "mon",
                "level_claimed": {"category": cat, "text": text, "design_ref": ref},
                "level_note": note,
                "technique": tech,
            })
        else:
            na.append({"property_id": pid, "reason": PENDING.get(pid, "monitor not built yet (work in progress; runtime monitoring applies, see DESIGN.md §4)")})
    m = {
        "version": 1,
        "setup_cmd": "./check --build-only",
        "hooks": {
            "guard": "verif (Go build tag)",
            "enable": "go build -tags verif (the ./check driver always builds /repo's working tree with the tag on)",
            "baseline_off_cmd": "cd /repo && GOTOOLCHAIN=local GOFLAGS=-mod=mod GOPROXY=off /root/go/pkg/mod/golang.org/toolchain@v0.0.1-go1.24.2.linux-amd64/bin/go test -vet=off -count=1 -timeout 25m ./...",
            "source_commits": hooks_commits,
            "add_only": True,
        },
        "engines": [{"name": "mon", "path": "/verif/cmd/mon", "serves_properties": [c["property_id"] for c in checks],
                     "kind_free_text": "Go binary built with -tags verif (and -race for C11): seeded workload generators + reference-model / history / invariant monitors over the real comet code; driver ./check"}],
        "checks": checks,
        "not_applicable": na,
        "notes": "Technique family: runtime monitoring and sanitizers only. Known findings: /verif/KNOWN_FINDINGS.txt. Seeds: VERIF_SEED; tiers: VERIF_TIER or --tier.",
    }
    json.dump(m, open(os.path.join(ROOT, "MANIFEST.json"), "w"), indent=1)
    print("wrote MANIFEST.json:", len(checks), "checks,", len(na), "not_applicable")

if __name__ == "__main__":
    main()
