#!/usr/bin/env bash
# usage: tools/allseeds.sh [seed-dir ...]  — for every seeded/<id>/ applies patch.diff to /repo, runs the quick check(s)
# of the property named in meta.json (plus extra checks given in meta "also_run"), reverts, and records the outcome
# in meta.json ("caught_by": [{check, signatures}], "last_result").
cd "$(dirname "$0")/.."
dirs=("$@"); [ ${#dirs[@]} -eq 0 ] && dirs=(seeded/*/)
for d in "${dirs[@]}"; do
  d="${d%/}"
  prop=$(python3 -c "import json;print(json.load(open('$d/meta.json'))['property'])")
  also=$(python3 -c "import json;print(' '.join(json.load(open('$d/meta.json')).get('also_run',[])))")
  if ! git -C /repo diff --quiet; then echo "/repo dirty"; exit 2; fi
  if ! git -C /repo apply "$(readlink -f $d/patch.diff)" 2>/dev/null; then
    echo "$d: patch does not apply to current /repo HEAD"
    python3 - "$d" <<'PY'
import json,sys
p=sys.argv[1]+'/meta.json'; m=json.load(open(p)); m['last_result']='patch does not apply to current /repo HEAD'; json.dump(m,open(p,'w'),indent=1)
PY
    continue
  fi
  res=""
  for id in $prop $also; do
    out=$(./check "$id" --tier quick 2>&1); rc=$?
    sigs=$(echo "$out" | grep '^violated:' | sed 's/.*sig=\([^ ]*\).*/\1/' | sort -u | tr '\n' ',' )
    res="$res$id:rc=$rc:$sigs;"
  done
  git -C /repo checkout -- .
  echo "$d: $res"
  python3 - "$d" "$res" <<'PY'
import json,sys,subprocess
p=sys.argv[1]+'/meta.json'; m=json.load(open(p))
caught=[]
for part in sys.argv[2].split(';'):
    if not part: continue
    cid,rc,sigs=part.split(':',2)
    if rc=='rc=1': caught.append({"check":cid,"tier":"quick","signatures":[s for s in sigs.split(',') if s]})
m['caught_by']=caught
m['last_result']='caught' if caught else 'MISSED'
m['checked_against_repo_head']=subprocess.check_output(["git","-C","/repo","rev-parse","--short","HEAD"],text=True).strip()
json.dump(m,open(p,'w'),indent=1)
PY
done
