#!/usr/bin/env bash
# usage: tools/reconfirm.sh seeded/<id>   — re-checks a kept seed against the CURRENT /repo HEAD in a scratch worktree:
# demo must fail with the patch and pass without. Prints STILL-VALID / NO-LONGER-BREAKS / DOES-NOT-APPLY.
export GOFLAGS=-mod=mod GOPROXY=off GOTOOLCHAIN=local GOSUMDB=off
GO=/root/go/pkg/mod/golang.org/toolchain@v0.0.1-go1.24.2.linux-amd64/bin/go
D="$(readlink -f "$1")"; WT=/tmp/reconfirm-$$
git -C /repo worktree add -q --detach "$WT" HEAD || exit 2
trap 'git -C /repo worktree remove --force "$WT" 2>/dev/null; rm -rf "$WT"' EXIT
cd "$WT"
git apply "$D/patch.diff" 2>/dev/null || { echo "$1: DOES-NOT-APPLY"; exit 0; }
cp "$D/demo_test.go" zz_seed_demo_test.go
m=$($GO test -vet=off -count=1 -run TestSeedDemo . 2>&1 | tail -1)
git checkout -q -- . 
c=$($GO test -vet=off -count=1 -run TestSeedDemo . 2>&1 | tail -1)
case "$m/$c" in
  ok*/ok*) echo "$1: NO-LONGER-BREAKS (demo passes with the patch on current HEAD)";;
  */ok*) echo "$1: STILL-VALID";;
  *) echo "$1: demo fails on clean HEAD: $c";;
esac
