#!/usr/bin/env bash
# Runs the repo's own suite with hooks OFF (and once with the tag on); retries because
# TestRerankerWithFlatIndex is flaky on the unchanged tree (tie order, ~20% of runs).
export GOFLAGS=-mod=mod GOPROXY=off GOTOOLCHAIN=local GOSUMDB=off
GO=/root/go/pkg/mod/golang.org/toolchain@v0.0.1-go1.24.2.linux-amd64/bin/go
cd /repo
for tag in "" "-tags verif"; do
  for attempt in 1 2 3 4 5; do
    out=$($GO test $tag -vet=off -count=1 ./... 2>&1)
    if echo "$out" | tail -1 | grep -q '^ok'; then echo "suite [$tag] ok (attempt $attempt)"; continue 2; fi
    fails=$(echo "$out" | grep -- '--- FAIL' | sort -u | tr '\n' ' ')
    echo "attempt $attempt [$tag]: $fails"
    if [ "$fails" != "--- FAIL: TestRerankerWithFlatIndex (0.00s) " ]; then echo "$out" | grep -B2 -A12 -- '--- FAIL' | head -60; exit 1; fi
  done
  echo "suite [$tag] not green in 5 attempts"; exit 1
done
