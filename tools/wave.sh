#!/usr/bin/env bash
# usage: tools/wave.sh <wave-dir> <Cnn> [letters...]  — confirm a sub-agent's seeds (<wave-dir>/<Cnn>/out/<letter>.*) and run the quick checks on them
cd "$(dirname "$0")/.."
W="$1"; ID="$2"; shift 2
LS=("$@"); [ ${#LS[@]} -eq 0 ] && { if [ "$ID" = C06 ]; then LS=(s t); else LS=(q r); fi; }
for L in "${LS[@]}"; do
  O="$W/$ID/out"
  [ -f "$O/$L.diff" ] || { echo "$ID-$L: no diff"; continue; }
  needs=$(grep -iv '^#' "$O/$L.md" 2>/dev/null | grep -i -m1 -A2 'needs' | tr '\n' ' ' | cut -c1-400)
  [ -z "$needs" ] && needs=$(head -c 300 "$O/$L.md" | tr '\n' ' ')
  if tools/confirmseed.sh "$O" "$L" "$ID" "$needs" 2>&1 | tail -1 | grep -q CONFIRMED; then
    tools/allseeds.sh "seeded/$ID-$L" 2>&1 | tail -1
  else
    echo "$ID-$L: NOT CONFIRMED"; tools/confirmseed.sh "$O" "$L" "$ID" "$needs" 2>&1 | tail -2
  fi
done
