#!/usr/bin/env bash
# usage: tools/runall.sh [tier]  — runs every claimed check once (sequentially), prints a one-line verdict each.
cd "$(dirname "$0")/.."
TIER="${1:-quick}"
for id in $(python3 -c "import json;print(' '.join(c['property_id'] for c in json.load(open('MANIFEST.json'))['checks']))"); do
  s=$(date +%s)
  out=$(./check "$id" --tier "$TIER" 2>&1); rc=$?
  e=$(( $(date +%s) - s ))
  echo "$id rc=$rc ${e}s  $(echo "$out" | grep -E '^(HELD|INCONCLUSIVE|HARNESS-ERROR)' | head -1 | cut -c1-120) known=$(echo "$out" | grep -c '^KNOWN-FINDING') viol=$(echo "$out" | grep -c '^VIOLATION')"
done
