#!/usr/bin/env python3
"""Validates MANIFEST.json and every evidence/*.json against the schemas in /root/.vp."""
import json, sys, glob, os
import jsonschema
ROOT = os.path.dirname(os.path.dirname(os.path.abspath(__file__)))
ok = True
def check(path, schema):
    global ok
    try:
        jsonschema.validate(json.load(open(path)), json.load(open(schema)))
        print("valid  ", path)
    except Exception as e:
        ok = False
        print("INVALID", path, str(e)[:300])
check(os.path.join(ROOT, "MANIFEST.json"), "/root/.vp/MANIFEST.schema.json")
for f in sorted(glob.glob(os.path.join(ROOT, "evidence", "*.json"))):
    check(f, "/root/.vp/EVIDENCE.schema.json")
sys.exit(0 if ok else 1)
