#!/usr/bin/env bash
# usage: tools/multiseed.sh [tier] [seeds...]  — silence sweep: every claimed check at several VERIF_SEED values;
# prints only the runs that did not exit 0 (or printed a violation), then a summary line.
cd "$(dirname "$0")/.."
TIER="${1:-quick}"; shift
SEEDS=("$@"); [ ${#SEEDS[@]} -eq 0 ] && SEEDS=(2 3 7 42 12345)
bad=0; n=0
for seed in "${SEEDS[@]}"; do
  for id in $(python3 -c "import json;print(' '.join(c['property_id'] for c in json.load(open('MANIFEST.json'))['checks']))"); do
    out=$(VERIF_SEED=$seed ./check "$id" --tier "$TIER" 2>&1); rc=$?
    n=$((n+1))
    v=$(echo "$out" | grep -c '^violated')
    if [ $rc -ne 0 ] || [ "$v" -ne 0 ]; then
      bad=$((bad+1)); echo "seed=$seed $id rc=$rc violated=$v"; echo "$out" | grep '^violated' | head -3 | cut -c1-300
    fi
  done
  echo "seed $seed done"
done
echo "multiseed: $n runs, $bad not silent"
