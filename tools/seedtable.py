#!/usr/bin/env python3
"""Writes seeded/README.md: one row per kept seeded change (from meta.json)."""
import json, glob, os
ROOT = os.path.dirname(os.path.dirname(os.path.abspath(__file__)))
rows = []
for d in sorted(glob.glob(os.path.join(ROOT, "seeded", "C*-*"))):
    m = json.load(open(os.path.join(d, "meta.json")))
    cb = "; ".join(f"{c['check']} `{', '.join(c['signatures'][:3])}`" + (f" (on {c['on_repo_head']})" if c.get('on_repo_head') else "") for c in m.get("caught_by", []))
    status = m.get("status", "")
    rows.append(f"| {os.path.basename(d)} | {m['property']} | {m.get('needs_to_manifest','')} | {cb or '**MISSED**'} | {m.get('first_missed','')} {status} |")
out = ["# Seeded changes kept for sensitivity testing", "",
       "Each directory: `patch.diff` (apply with `git -C /repo apply`), `demo_test.go` (fails with the patch, passes without), `notes.md` (the author's description), `meta.json`.",
       "Written by sub-agents that saw only the property text; confirmed by `tools/confirmseed.sh`; outcomes recorded by `tools/allseeds.sh` (quick tier).", "",
       "| seed | property | needs to manifest | caught by (quick tier; first signatures) | notes |", "|---|---|---|---|---|"] + rows
open(os.path.join(ROOT, "seeded", "README.md"), "w").write("\n".join(out) + "\n")
print(len(rows), "seeds")
