#!/usr/bin/env python3
# usage: tools/missed.py <seed-id> "<note>"  — records in meta.json that the seed was missed at first and what was changed
import json,sys
p=f'/verif/seeded/{sys.argv[1]}/meta.json'; m=json.load(open(p)); m['first_missed']=sys.argv[2]; json.dump(m,open(p,'w'),indent=1)
