#!/usr/bin/env bash
# usage: tools/sweep.sh — the full silence sweep: every check thorough at seed 1, then quick at five more seeds.
cd "$(dirname "$0")/.."
tools/runall.sh thorough
tools/multiseed.sh quick 2 3 7 42 12345
