#!/usr/bin/env bash
# usage: tools/tryseed.sh <patch.diff> <Cnn> [more Cnn...]   — applies the patch to /repo, runs the quick checks, reverts.
set -u
P="$(readlink -f "$1")"; shift
cd /verif
if ! git -C /repo diff --quiet; then echo "/repo is dirty; refusing"; exit 2; fi
git -C /repo apply "$P" || { echo "patch does not apply"; exit 2; }
for id in "$@"; do
  out=$(./check "$id" --tier quick 2>&1); rc=$?
  echo "== $id exit=$rc $(echo "$out" | grep -c '^VIOLATION') VIOLATION lines; sigs: $(echo "$out" | grep '^violated:' | sed 's/.*sig=\([^ ]*\).*/\1/' | sort | uniq -c | tr '\n' ';')"
  echo "$out" | grep -E '^(HARNESS-ERROR|INCONCLUSIVE)' | head -3
done
git -C /repo checkout -- . && git -C /repo status --short | head -3
