#!/usr/bin/env bash
# usage: tools/confirmseed.sh <seed-dir> <letter> <Cnn> "<needs-to-manifest>"
# Confirms a sub-agent's mutation in a fresh scratch worktree of /repo HEAD:
#   (1) patch applies, builds, unedited suite passes; (2) demo fails with patch; (3) demo passes without.
# On success copies it to /verif/seeded/<Cnn>-<letter>/ with meta.json.
set -u
SD="$1"; L="$2"; ID="$3"; NEEDS="${4:-}"
export GOFLAGS=-mod=mod GOPROXY=off GOTOOLCHAIN=local GOSUMDB=off
GO=/root/go/pkg/mod/golang.org/toolchain@v0.0.1-go1.24.2.linux-amd64/bin/go
WT=/tmp/confirm-$ID-$L-$$
git -C /repo worktree add -q --detach "$WT" HEAD || exit 2
cleanup() { git -C /repo worktree remove --force "$WT" 2>/dev/null; rm -rf "$WT"; }
trap cleanup EXIT
cd "$WT"
git apply "$SD/$L.diff" || { echo "FAIL: patch does not apply to /repo HEAD"; exit 1; }
$GO build ./... || { echo "FAIL: does not build"; exit 1; }
# TestRerankerWithFlatIndex is flaky on the unchanged tree (tie order, ~20% of runs): allow re-runs
for attempt in 1 2 3 4 5; do
  suite=$($GO test -vet=off -count=1 ./... 2>&1 | tail -1)
  case "$suite" in ok*) break;; esac
done
case "$suite" in ok*) ;; *) echo "FAIL: suite not green with mutation in 5 attempts: $suite"; exit 1;; esac
cp "$SD/${L}_demo_test.go" ./zz_seed_demo_test.go
demo_mut=$($GO test -vet=off -count=1 -run "TestSeedDemo" . 2>&1 | tail -1)
case "$demo_mut" in ok*) echo "FAIL: demo passes WITH mutation"; exit 1;; esac
rm zz_seed_demo_test.go; git checkout -q -- .
cp "$SD/${L}_demo_test.go" ./zz_seed_demo_test.go
demo_clean=$($GO test -vet=off -count=1 -run "TestSeedDemo" . 2>&1 | tail -1)
case "$demo_clean" in ok*) ;; *) echo "FAIL: demo fails WITHOUT mutation: $demo_clean"; exit 1;; esac
rm zz_seed_demo_test.go
D=/verif/seeded/$ID-$L
mkdir -p "$D"
cp "$SD/$L.diff" "$D/patch.diff"; cp "$SD/${L}_demo_test.go" "$D/demo_test.go"; cp "$SD/$L.md" "$D/notes.md" 2>/dev/null
python3 - "$D" "$ID" "$NEEDS" "$suite" "$demo_mut" "$demo_clean" <<'PY'
import json,sys,subprocess
d,pid,needs,suite,dm,dc=sys.argv[1:7]
head=subprocess.check_output(["git","-C","/repo","rev-parse","HEAD"],text=True).strip()
json.dump({"property":pid,"needs_to_manifest":needs,"confirmed_against_repo_head":head,
 "what_i_ran":["git worktree add <scratch> HEAD; git apply patch.diff; go build ./...",
   "go test -vet=off -count=1 ./...   (unedited suite, mutation applied) -> "+suite,
   "go test -run TestSeedDemo .        (mutation applied) -> "+dm,
   "go test -run TestSeedDemo .        (mutation reverted) -> "+dc],
 "caught_by": []}, open(d+"/meta.json","w"), indent=1)
PY
echo "CONFIRMED $ID-$L  suite: $suite | demo(mut): $demo_mut | demo(clean): $demo_clean"
