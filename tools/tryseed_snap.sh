#!/usr/bin/env bash
# usage: tools/tryseed_snap.sh <patch.diff> <Cnn> [more Cnn...] — development aid: like tryseed.sh but on a scratch worktree of
# /repo HEAD (through VERIF_REPO_DIR), so /repo itself stays clean and other runs are not disturbed. The recorded outcome in
# meta.json always comes from tools/allseeds.sh, which applies the patch to /repo itself.
set -u
P="$(readlink -f "$1")"; shift
cd "$(dirname "$0")/.."
WT=/tmp/tryseed-snap-$$
git -C /repo worktree add -q --detach "$WT" HEAD || exit 2
trap 'git -C /repo worktree remove --force "$WT" 2>/dev/null; rm -rf "$WT"' EXIT
git -C "$WT" apply "$P" || { echo "patch does not apply"; exit 2; }
for id in "$@"; do
  out=$(VERIF_REPO_DIR="$WT" ./check "$id" --tier quick 2>&1); rc=$?
  echo "== $id exit=$rc $(echo "$out" | grep -c '^VIOLATION') VIOLATION lines; sigs: $(echo "$out" | grep '^violated:' | sed 's/.*sig=\([^ ]*\).*/\1/' | sort | uniq -c | tr '\n' ';')"
  echo "$out" | grep -E '^(HARNESS-ERROR|INCONCLUSIVE)' | head -3
done
