// Package ev is the shared run/evidence/known-finding machinery of every monitor.
//
// A monitor creates one Run, executes cases through Run.Cases (which seeds a
// per-case PRNG, records the case descriptor on disk before the case starts,
// and converts a panic inside comet into a violation), reports observations
// through Count/Eval/Violation and ends with Finish, which writes
// evidence/<id>.json, prints KNOWN-FINDING / VIOLATION / INCONCLUSIVE lines and
// returns the process exit code.
package ev

import (
	"bufio"
	"encoding/json"
	"fmt"
	"hash/fnv"
	"math/rand/v2"
	"os"
	"path/filepath"
	"runtime"
	"runtime/debug"
	"sort"
	"strconv"
	"strings"
	"sync"
	"time"
)

// Root is the /verif directory (VERIF_ROOT overrides; default: cwd).
func Root() string {
	if r := os.Getenv("VERIF_ROOT"); r != "" {
		return r
	}
	wd, _ := os.Getwd()
	return wd
}

type violation struct {
	Sig     string `json:"sig"`
	What    string `json:"what"`
	Case    int    `json:"case"`
	Witness any    `json:"witness,omitempty"`
	Replay  string `json:"replay,omitempty"`
}

type knownEntry struct {
	Sig  string
	What string
}

// Run collects everything one check execution observes.
type Run struct {
	ID    string
	Tier  string
	Seed  int64
	Level string

	Rule        string
	Assumptions []string
	Exhaustive  bool
	// MinNontrivial is the minimum number of distinct non-trivial cases below which
	// the run is INCONCLUSIVE (broken check) rather than a pass.
	MinNontrivial int
	// Required lists counters that must be > 0 for the run to be conclusive.
	Required []string

	start time.Time
	mu    sync.Mutex

	evaluations          int64
	digests              map[uint64]struct{}
	samples              []any
	counters             map[string]int64
	maxima               map[string]float64
	violations           []violation
	known                map[string]knownEntry
	knownHits            map[string]int64
	inconclusive         int64
	onlyCase             int
	slowViolatedCases    int
	watchdogInconclusive bool
	curCase              int
	verbose              bool
	extra                map[string]any
	replaysWritten       int
}

// Thorough reports whether the tier is "thorough".
func (r *Run) Thorough() bool { return r.Tier == "thorough" }

// Pick returns q in the quick tier and t in the thorough tier.
func (r *Run) Pick(q, t int) int {
	if r.Thorough() {
		return t
	}
	return q
}

// Verbose is true in replay mode.
func (r *Run) Verbose() bool { return r.verbose }

// New creates a run for property id at the given level.
func New(id, level string) *Run {
	tier := os.Getenv("VERIF_TIER")
	if tier != "thorough" {
		tier = "quick"
	}
	seed := int64(1)
	if s := os.Getenv("VERIF_SEED"); s != "" {
		if v, err := strconv.ParseInt(s, 10, 64); err == nil {
			seed = v
		}
	}
	if os.Getenv("VERIF_CASE_WATCHDOG") == "" {
		CaseWatchdog = 5 * time.Minute // quick-tier cases take well under a minute
		if tier == "thorough" {
			CaseWatchdog = 15 * time.Minute
		}
	}
	r := &Run{ID: id, Tier: tier, Seed: seed, Level: level, start: time.Now(),
		digests: map[uint64]struct{}{}, counters: map[string]int64{}, maxima: map[string]float64{},
		known: map[string]knownEntry{}, knownHits: map[string]int64{}, onlyCase: -1,
		MinNontrivial: 2, extra: map[string]any{}}
	if s := os.Getenv("VERIF_ONLY_CASE"); s != "" {
		if v, err := strconv.Atoi(s); err == nil {
			r.onlyCase = v
			r.verbose = true
		}
	}
	r.loadKnown()
	os.MkdirAll(filepath.Join(Root(), "evidence", ".current"), 0o755)
	return r
}

func (r *Run) loadKnown() {
	f, err := os.Open(filepath.Join(Root(), "KNOWN_FINDINGS.txt"))
	if err != nil {
		return
	}
	defer f.Close()
	sc := bufio.NewScanner(f)
	for sc.Scan() {
		line := strings.TrimSpace(sc.Text())
		if !strings.HasPrefix(line, "known:") {
			continue // "fixed:" lines and comments suppress nothing
		}
		fields := strings.Fields(strings.TrimPrefix(line, "known:"))
		var prop, sig string
		var rest []string
		for _, f := range fields {
			switch {
			case strings.HasPrefix(f, "property=") && prop == "":
				prop = strings.TrimPrefix(f, "property=")
			case strings.HasPrefix(f, "sig=") && sig == "":
				sig = strings.TrimPrefix(f, "sig=")
			default:
				rest = append(rest, f)
			}
		}
		if prop == r.ID && sig != "" {
			r.known[sig] = knownEntry{Sig: sig, What: strings.Join(rest, " ")}
		}
	}
}

// Rng returns the deterministic PRNG for (seed, property, stream, index).
func (r *Run) Rng(stream string, idx int) *rand.Rand {
	h := fnv.New64a()
	h.Write([]byte(r.ID))
	h.Write([]byte{0})
	h.Write([]byte(stream))
	return rand.New(rand.NewPCG(uint64(r.Seed)*0x9E3779B97F4A7C15+uint64(idx)+1, h.Sum64()))
}

// Cases runs n cases of a named stream. body gets the case index and its PRNG.
// A panic inside body is recorded as a violation with signature "panic".
// CaseWatchdog bounds one case (VERIF_CASE_WATCHDOG seconds overrides it); DeadlockClassifier decides whether a
// goroutine dump proves a deadlock inside comet (set by the monitor package).
var (
	CaseWatchdog       = 10 * time.Minute
	DeadlockClassifier func(dump string) bool
)

func init() {
	if s := os.Getenv("VERIF_CASE_WATCHDOG"); s != "" {
		if v, err := strconv.Atoi(s); err == nil && v > 0 {
			CaseWatchdog = time.Duration(v) * time.Second
		}
	}
}

func (r *Run) Cases(stream string, n int, body func(i int, rng *rand.Rand)) {
	for i := 0; i < n; i++ {
		if r.onlyCase >= 0 && i != r.onlyCase {
			continue
		}
		r.runCase(stream, i, body)
	}
}

// CasesParallel is Cases on up to workers goroutines (case bodies must be independent).
func (r *Run) CasesParallel(stream string, n, workers int, body func(i int, rng *rand.Rand)) {
	if workers <= 1 || r.onlyCase >= 0 {
		r.Cases(stream, n, body)
		return
	}
	var wg sync.WaitGroup
	ch := make(chan int)
	for w := 0; w < workers; w++ {
		wg.Add(1)
		go func() {
			defer wg.Done()
			for i := range ch {
				r.runCase(stream, i, body)
			}
		}()
	}
	for i := 0; i < n; i++ {
		ch <- i
	}
	close(ch)
	wg.Wait()
}

func (r *Run) runCase(stream string, i int, body func(i int, rng *rand.Rand)) {
	// A tree that deadlocks makes every affected case cost a full watchdog period. Once four cases have each run into a
	// watchdog (took > 50 s) AND been reported as violations, the remaining cases add nothing but hours: they are skipped
	// and counted inconclusive. Never triggers on a tree without violations.
	r.mu.Lock()
	skip := r.slowViolatedCases >= 4
	nBefore := len(r.violations)
	r.mu.Unlock()
	if skip {
		r.Count("cases-skipped-after-four-watchdog-violations:"+stream, 1)
		r.Inconclusive("case skipped: four earlier cases hit a watchdog and are reported as violations")
		return
	}
	t0 := time.Now()
	defer func() {
		r.mu.Lock()
		if time.Since(t0) > 50*time.Second && len(r.violations) > nBefore {
			r.slowViolatedCases++
		}
		r.mu.Unlock()
	}()
	// Per-case watchdog: most monitors call straight into comet without a watchdog of their own, so a tree that
	// deadlocks (a leaked lock, a semaphore never released) would simply hang the check until the driver's time limit
	// and leave no verdict. After CaseWatchdog the goroutine dump is taken: every goroutine inside comet parked on a
	// sync primitive = a proven deadlock = violation; anything else = inconclusive. Either way the run ends here (the
	// stuck goroutine cannot be recovered): evidence is written and the process exits with the verdict.
	wd := time.AfterFunc(CaseWatchdog, func() {
		buf := make([]byte, 4<<20)
		dump := string(buf[:runtime.Stack(buf, true)])
		if DeadlockClassifier != nil && DeadlockClassifier(dump) {
			if len(dump) > 16000 {
				dump = dump[:16000]
			}
			r.ViolationAt(stream, i, "hang.deadlock", fmt.Sprintf("case %s/%d did not finish within %s and every goroutine inside comet is parked on a sync primitive", stream, i, CaseWatchdog), map[string]any{"goroutine_dump": dump})
		} else {
			fmt.Printf("case %s/%d did not finish within %s; no provable wait cycle inside comet\n", stream, i, CaseWatchdog)
			r.Inconclusive("case watchdog fired without a provable deadlock")
			r.mu.Lock()
			r.watchdogInconclusive = true
			r.mu.Unlock()
		}
		os.Exit(r.Finish())
	})
	defer wd.Stop()
	// one descriptor per case in flight (cases of one stream may run in parallel): whatever is still there when the
	// process dies is a case that had not finished
	cur := filepath.Join(Root(), "evidence", ".current", fmt.Sprintf("%s.%s.%d.json", r.ID, stream, i))
	desc := map[string]any{"property": r.ID, "stream": stream, "case": i, "seed": r.Seed, "tier": r.Tier}
	b, _ := json.Marshal(desc)
	os.WriteFile(cur, b, 0o644)
	defer func() {
		if p := recover(); p != nil {
			st := string(debug.Stack())
			r.ViolationAt(stream, i, "panic", fmt.Sprintf("panic in case %s/%d: %v", stream, i, p),
				map[string]any{"panic": fmt.Sprint(p), "stack": trimStack(st)})
		}
		os.Remove(cur)
	}()
	body(i, r.Rng(stream, i))
}

func trimStack(s string) string {
	lines := strings.Split(s, "\n")
	if len(lines) > 60 {
		lines = lines[:60]
	}
	return strings.Join(lines, "\n")
}

// Eval records one evaluated case (or probe); digest identifies it for the distinct count
// and nontrivial says whether it satisfies the run's non-triviality rule.
func (r *Run) Eval(nontrivial bool, digest uint64) {
	r.mu.Lock()
	r.evaluations++
	if nontrivial {
		r.digests[digest] = struct{}{}
	}
	r.mu.Unlock()
}

// Count adds n to a named observation counter.
func (r *Run) Count(key string, n int64) {
	r.mu.Lock()
	r.counters[key] += n
	r.mu.Unlock()
}

// Counter reads a counter.
func (r *Run) Counter(key string) int64 {
	r.mu.Lock()
	defer r.mu.Unlock()
	return r.counters[key]
}

// Max records the maximum seen of a named quantity (e.g. max relative error).
func (r *Run) Max(key string, v float64) {
	r.mu.Lock()
	if v > r.maxima[key] {
		r.maxima[key] = v
	}
	r.mu.Unlock()
}

// Inconclusive counts one inconclusive/ambiguous evaluation.
func (r *Run) Inconclusive(why string) {
	r.mu.Lock()
	r.inconclusive++
	r.counters["inconclusive:"+why]++
	r.mu.Unlock()
}

// Sample stores up to 4 written-out cases for the evidence file.
func (r *Run) Sample(s any) {
	r.mu.Lock()
	if len(r.samples) < 4 {
		r.samples = append(r.samples, s)
	}
	r.mu.Unlock()
}

// WantSample says whether more samples are wanted.
func (r *Run) WantSample() bool {
	r.mu.Lock()
	defer r.mu.Unlock()
	return len(r.samples) < 4
}

// Extra stores an extra key in coverage.
func (r *Run) Extra(key string, v any) {
	r.mu.Lock()
	r.extra[key] = v
	r.mu.Unlock()
}

// Violation records a violated case found in stream/case; sig is the witness signature that is
// matched against KNOWN_FINDINGS.txt.
func (r *Run) ViolationAt(stream string, caseIdx int, sig, what string, witness any) {
	r.mu.Lock()
	defer r.mu.Unlock()
	if k, ok := r.known[sig]; ok {
		r.knownHits[k.Sig]++
		return
	}
	v := violation{Sig: sig, What: what, Case: caseIdx, Witness: witness}
	// keep at most 3 replays per signature, 25 overall
	perSig := 0
	for _, o := range r.violations {
		if o.Sig == sig {
			perSig++
		}
	}
	if perSig < 3 && r.replaysWritten < 60 {
		r.replaysWritten++
		dir := filepath.Join(Root(), "replays", r.ID)
		os.MkdirAll(dir, 0o755)
		name := fmt.Sprintf("%s-seed%d-%s-%d-%s.json", r.Tier, r.Seed, stream, caseIdx, sanitize(sig))
		path := filepath.Join(dir, name)
		b, _ := json.MarshalIndent(map[string]any{"property": r.ID, "seed": r.Seed, "tier": r.Tier,
			"stream": stream, "case": caseIdx, "sig": sig, "what": what, "witness": witness}, "", " ")
		os.WriteFile(path, b, 0o644)
		v.Replay = path
		fmt.Printf("violated: property=%s sig=%s case=%s/%d %s\n", r.ID, sig, stream, caseIdx, what)
		fmt.Printf("violation-replay: %s\n", path) // lets the driver report a violation even if the run is cut short later
	}
	r.violations = append(r.violations, v)
}

func sanitize(s string) string {
	var b strings.Builder
	for _, c := range s {
		if c == '.' || c == '-' || c == '_' || (c >= '0' && c <= '9') || (c >= 'a' && c <= 'z') || (c >= 'A' && c <= 'Z') {
			b.WriteRune(c)
		} else {
			b.WriteByte('_')
		}
	}
	if b.Len() > 60 {
		return b.String()[:60]
	}
	return b.String()
}

// KnownHits returns how many times a known signature matched.
func (r *Run) KnownHits(sig string) int64 {
	r.mu.Lock()
	defer r.mu.Unlock()
	return r.knownHits[sig]
}

// Finish writes the evidence file, prints the verdict lines and returns the exit code
// (0 held, 1 violation, 2 inconclusive/broken).
func (r *Run) Finish() int {
	r.mu.Lock()
	defer r.mu.Unlock()
	wall := time.Since(r.start).Seconds()
	cov := map[string]any{
		"evaluations":         r.evaluations,
		"distinct_nontrivial": len(r.digests),
		"rule":                r.Rule,
		"samples":             r.samples,
		"observed":            r.counters,
		"inconclusive":        r.inconclusive,
		"exhaustive":          r.Exhaustive,
	}
	if len(r.maxima) > 0 {
		cov["maxima"] = r.maxima
	}
	for k, v := range r.extra {
		cov[k] = v
	}
	if len(r.knownHits) > 0 {
		cov["known_finding_hits"] = r.knownHits
	}
	if len(r.violations) > 0 {
		sigs := map[string]int{}
		for _, v := range r.violations {
			sigs[v.Sig]++
		}
		cov["violation_signatures"] = sigs
	}
	if r.samples == nil {
		cov["samples"] = []any{}
	}
	evd := map[string]any{
		"property_id": r.ID, "tier": r.Tier, "seed": r.Seed, "level": r.Level,
		"coverage": cov, "assumptions": r.Assumptions, "wall_s": wall,
		"violations": len(r.violations),
	}
	if r.Assumptions == nil {
		evd["assumptions"] = []string{}
	}
	code := 0
	var missing []string
	for _, k := range r.Required {
		if r.counters[k] <= 0 {
			missing = append(missing, k)
		}
	}
	if r.onlyCase < 0 {
		b, err := json.MarshalIndent(evd, "", " ")
		if err != nil {
			fmt.Printf("HARNESS-ERROR: cannot marshal evidence: %v\n", err)
			return 2
		}
		os.MkdirAll(filepath.Join(Root(), "evidence"), 0o755)
		if err := os.WriteFile(filepath.Join(Root(), "evidence", r.ID+".json"), b, 0o644); err != nil {
			fmt.Printf("HARNESS-ERROR: cannot write evidence: %v\n", err)
			return 2
		}
	}
	sigs := make([]string, 0, len(r.knownHits))
	for s := range r.knownHits {
		sigs = append(sigs, s)
	}
	sort.Strings(sigs)
	for _, s := range sigs {
		fmt.Printf("KNOWN-FINDING: property=%s sig=%s hits=%d %s\n", r.ID, s, r.knownHits[s], r.known[s].What)
	}
	keys := make([]string, 0, len(r.counters))
	for k := range r.counters {
		keys = append(keys, k)
	}
	sort.Strings(keys)
	fmt.Printf("observed property=%s tier=%s seed=%d evaluations=%d distinct_nontrivial=%d inconclusive=%d wall=%.1fs\n",
		r.ID, r.Tier, r.Seed, r.evaluations, len(r.digests), r.inconclusive, wall)
	for _, k := range keys {
		fmt.Printf("  %-48s %d\n", k, r.counters[k])
	}
	for k, v := range r.maxima {
		fmt.Printf("  max %-44s %g\n", k, v)
	}
	if len(r.violations) > 0 {
		printed := map[string]bool{}
		for _, v := range r.violations {
			if v.Replay != "" && !printed[v.Replay] {
				printed[v.Replay] = true
				fmt.Printf("VIOLATION property=%s replay=%s\n", r.ID, v.Replay)
			}
		}
		fmt.Printf("violations total=%d\n", len(r.violations))
		code = 1
	} else if r.watchdogInconclusive {
		fmt.Printf("INCONCLUSIVE property=%s a case ran into the per-case watchdog without a provable deadlock; the run was cut short\n", r.ID)
		code = 2
	} else if r.onlyCase < 0 && (len(r.digests) < r.MinNontrivial || len(missing) > 0) {
		fmt.Printf("INCONCLUSIVE property=%s distinct_nontrivial=%d (min %d) missing-observations=%v\n",
			r.ID, len(r.digests), r.MinNontrivial, missing)
		code = 2
	} else {
		if len(r.knownHits) > 0 {
			fmt.Printf("HELD property=%s on everything explored, apart from the %d known finding(s) listed above\n", r.ID, len(r.knownHits))
		} else {
			fmt.Printf("HELD property=%s on everything explored\n", r.ID)
		}
	}
	return code
}

// Digest hashes arbitrary printable parts into a case digest.
func Digest(parts ...any) uint64 {
	h := fnv.New64a()
	for _, p := range parts {
		fmt.Fprintf(h, "%v|", p)
	}
	return h.Sum64()
}
