// Package hist records client-boundary histories with a logical clock and checks them: an interval check that
// reads like the C11 sentence, and porcupine over a per-document present/absent register model.
package hist

import (
	"fmt"
	"sort"
	"sync"
	"sync/atomic"
	"time"

	"github.com/anishathalye/porcupine"
)

// Kind of operation.
type Kind int

const (
	Add Kind = iota
	Remove
	Search
)

// Op is one completed (or still open) client operation.
type Op struct {
	Proc   int
	Kind   Kind
	ID     uint32          // Add / Remove target
	OK     bool            // Add / Remove returned nil
	Seen   map[uint32]bool // Search: ids returned
	Call   int64
	Ret    int64 // 0 = never returned (kept open)
	ErrStr string
}

// Recorder is a thread-safe history with one process-wide logical clock.
type Recorder struct {
	clock atomic.Int64
	mu    sync.Mutex
	ops   []*Op
}

// Begin records the call event BEFORE the operation is invoked.
func (r *Recorder) Begin(proc int, k Kind, id uint32) *Op {
	op := &Op{Proc: proc, Kind: k, ID: id, Call: r.clock.Add(1)}
	r.mu.Lock()
	r.ops = append(r.ops, op)
	r.mu.Unlock()
	return op
}

// End records the return event AFTER the reply.
func (r *Recorder) End(op *Op, ok bool, seen map[uint32]bool, err error) {
	op.OK, op.Seen = ok, seen
	if err != nil {
		op.ErrStr = err.Error()
	}
	op.Ret = r.clock.Add(1)
}

// Ops returns the recorded operations.
func (r *Recorder) Ops() []*Op {
	r.mu.Lock()
	defer r.mu.Unlock()
	return append([]*Op(nil), r.ops...)
}

// Overlaps counts pairs of operations (by kind) whose intervals overlapped.
func Overlaps(ops []*Op) map[string]int {
	names := map[Kind]string{Add: "add", Remove: "remove", Search: "search"}
	out := map[string]int{}
	sorted := append([]*Op(nil), ops...)
	sort.Slice(sorted, func(i, j int) bool { return sorted[i].Call < sorted[j].Call })
	for i, a := range sorted {
		ar := a.Ret
		if ar == 0 {
			ar = 1 << 62
		}
		for j := i + 1; j < len(sorted) && sorted[j].Call < ar; j++ {
			x, y := names[a.Kind], names[sorted[j].Kind]
			if x > y {
				x, y = y, x
			}
			out[x+"||"+y]++
		}
	}
	return out
}

// Violation is one refuted obligation.
type Violation struct {
	Sig  string
	What string
}

// IntervalCheck is the literal C11 sentence. removeErrLegalWhenPresent: the API documents that removal may be
// refused although the document exists (persistent store).
func IntervalCheck(ops []*Op) []Violation {
	var out []Violation
	adds := map[uint32][]*Op{}
	removes := map[uint32][]*Op{}
	for _, o := range ops {
		switch o.Kind {
		case Add:
			adds[o.ID] = append(adds[o.ID], o)
		case Remove:
			removes[o.ID] = append(removes[o.ID], o)
		}
	}
	inf := int64(1) << 62
	ret := func(o *Op) int64 {
		if o.Ret == 0 {
			return inf
		}
		return o.Ret
	}
	for _, s := range ops {
		if s.Kind != Search || s.Ret == 0 || s.ErrStr != "" {
			continue
		}
		ids := map[uint32]bool{}
		for id := range adds {
			ids[id] = true
		}
		for id := range s.Seen {
			ids[id] = true
		}
		for id := range ids {
			// must contain: an add completed before the search began and no removal had begun before it returned
			must := false
			for _, a := range adds[id] {
				if a.OK && ret(a) < s.Call {
					must = true
				}
			}
			for _, rm := range removes[id] {
				if rm.Call < ret(s) {
					must = false
				}
			}
			if must && !s.Seen[id] {
				out = append(out, Violation{"missing-completed-add", fmt.Sprintf("search [%d,%d] by proc %d misses id %d whose add completed before the search began and whose removal had not begun", s.Call, s.Ret, s.Proc, id)})
			}
			if !s.Seen[id] {
				continue
			}
			// must not contain: never added (no add begun before the search returned)
			begun := false
			for _, a := range adds[id] {
				if a.Call < ret(s) {
					begun = true
				}
			}
			if !begun {
				out = append(out, Violation{"never-added-id-returned", fmt.Sprintf("search [%d,%d] returns id %d for which no add had begun", s.Call, s.Ret, id)})
				continue
			}
			// must not contain: a removal completed before the search began (ids are added at most once)
			for _, rm := range removes[id] {
				if rm.OK && ret(rm) < s.Call {
					// an add that had not completed before this removal began may take effect after it
					readded := false
					for _, a := range adds[id] {
						if ret(a) > rm.Call {
							readded = true
						}
					}
					if !readded {
						out = append(out, Violation{"removed-id-returned", fmt.Sprintf("search [%d,%d] returns id %d whose removal completed at %d, before the search began", s.Call, s.Ret, id, rm.Ret)})
					}
				}
			}
		}
	}
	return out
}

type regIn struct {
	Kind Kind
	ID   uint32
}
type regOut struct {
	OK   bool
	Seen bool
}

// Porcupine checks the history against a set of independent present/absent registers (one per document id).
// removeErrAnyState: a failed removal is legal in any state (store); otherwise only when absent.
// removeOKWhenAbsent: removal reports success although nothing was there (BM25 never reports).
func Porcupine(ops []*Op, removeErrAnyState, removeOKWhenAbsent bool, timeout time.Duration) (result string, partitions int, witness string) {
	universe := map[uint32]bool{}
	for _, o := range ops {
		if o.Kind != Search {
			universe[o.ID] = true
		}
		for id := range o.Seen {
			universe[id] = true
		}
	}
	var maxT int64
	for _, o := range ops {
		if o.Call > maxT {
			maxT = o.Call
		}
		if o.Ret > maxT {
			maxT = o.Ret
		}
	}
	var pops []porcupine.Operation
	for _, o := range ops {
		ret := o.Ret
		if ret == 0 {
			ret = maxT + 1 // still open at the end of the history: may take effect any time
		}
		switch o.Kind {
		case Add, Remove:
			pops = append(pops, porcupine.Operation{ClientId: o.Proc, Input: regIn{o.Kind, o.ID}, Call: o.Call, Output: regOut{OK: o.OK}, Return: ret})
		case Search:
			if o.Ret == 0 || o.ErrStr != "" {
				continue
			}
			for id := range universe {
				pops = append(pops, porcupine.Operation{ClientId: o.Proc, Input: regIn{Search, id}, Call: o.Call, Output: regOut{Seen: o.Seen[id]}, Return: ret})
			}
		}
	}
	model := porcupine.Model{
		Partition: func(history []porcupine.Operation) [][]porcupine.Operation {
			by := map[uint32][]porcupine.Operation{}
			for _, op := range history {
				id := op.Input.(regIn).ID
				by[id] = append(by[id], op)
			}
			var out [][]porcupine.Operation
			for _, v := range by {
				out = append(out, v)
			}
			return out
		},
		Init: func() any { return false },
		Step: func(state, in, out any) (bool, any) {
			present := state.(bool)
			i, o := in.(regIn), out.(regOut)
			switch i.Kind {
			case Add:
				if o.OK {
					return true, true
				}
				return true, present // a failed add changes nothing (its failure is judged elsewhere)
			case Remove:
				if o.OK {
					if !present && !removeOKWhenAbsent {
						// two racing removers may both be told "ok" only if the API does not promise otherwise: C11 does
						// not promise it, so success from "absent" is accepted as a no-op
						return true, false
					}
					return true, false
				}
				if present && !removeErrAnyState {
					return false, present
				}
				return true, present
			default:
				return o.Seen == present, present
			}
		},
		DescribeOperation: func(in, out any) string {
			i, o := in.(regIn), out.(regOut)
			switch i.Kind {
			case Add:
				return fmt.Sprintf("add(%d)->ok=%v", i.ID, o.OK)
			case Remove:
				return fmt.Sprintf("remove(%d)->ok=%v", i.ID, o.OK)
			}
			return fmt.Sprintf("read(%d)->%v", i.ID, o.Seen)
		},
	}
	partitions = len(universe)
	res := porcupine.CheckOperationsTimeout(model, pops, timeout)
	switch res {
	case porcupine.Ok:
		return "ok", partitions, ""
	case porcupine.Unknown:
		return "unknown", partitions, ""
	}
	// find the offending register and write out its sub-history as the witness
	by := map[uint32][]porcupine.Operation{}
	for _, op := range pops {
		id := op.Input.(regIn).ID
		by[id] = append(by[id], op)
	}
	single := model
	single.Partition = nil
	ids := make([]uint32, 0, len(by))
	for id := range by {
		ids = append(ids, id)
	}
	sort.Slice(ids, func(i, j int) bool { return ids[i] < ids[j] })
	for _, id := range ids {
		if porcupine.CheckOperationsTimeout(single, by[id], timeout) == porcupine.Illegal {
			sub := by[id]
			sort.Slice(sub, func(i, j int) bool { return sub[i].Call < sub[j].Call })
			w := fmt.Sprintf("no linearization of the sub-history of id %d:", id)
			for i, op := range sub {
				if i >= 40 {
					w += " ..."
					break
				}
				w += fmt.Sprintf(" p%d:%s[%d,%d]", op.ClientId, model.DescribeOperation(op.Input, op.Output), op.Call, op.Return)
			}
			return "illegal", partitions, w
		}
	}
	return "illegal", partitions, "porcupine found no linearization (per-id register model)"
}
