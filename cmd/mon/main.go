// Command mon runs one property monitor: mon <Cnn>.
// Tier and seed come from VERIF_TIER / VERIF_SEED, replay from VERIF_ONLY_CASE (set by ./check).
package main

import (
	"fmt"
	"os"

	"verif/internal/ev"
	"verif/mon"
)

func main() {
	if len(os.Args) < 2 {
		fmt.Println("usage: mon <property-id>")
		os.Exit(2)
	}
	id := os.Args[1]
	m, ok := mon.Registry[id]
	if !ok {
		fmt.Printf("HARNESS-ERROR: no monitor for %s\n", id)
		os.Exit(2)
	}
	r := ev.New(id, m.Level)
	m.Run(r)
	os.Exit(r.Finish())
}
