// Command storehelper is the child process of the store monitors: it opens a comet store directory in a
// separate process (ownership races, reopen-in-new-process, real SIGKILL crash points).
//
//	storehelper hold <dir> <hold-ms>            open, print OPENED|OPENFAIL, hold, close, print CLOSED
//	storehelper ids  <dir> <vec> <text> <meta> <dim> <metric>   open with fresh templates, print "IDS <modality> id id ..." per modality
//	storehelper crash <dir> <point> <n> <ndocs> open, add ndocs documents, Flush; SIGKILL itself at the n-th hit of <point>
package main

import (
	"fmt"
	"os"
	"sort"
	"strconv"
	"strings"
	"syscall"
	"time"

	"github.com/wizenheimer/comet"
)

func cfg(dir string, vec, text, meta bool, dim int, metric string) *comet.StorageConfig {
	c := comet.DefaultStorageConfig(dir)
	c.CompactionInterval = 24 * time.Hour
	c.CompactionThreshold = 1000
	if vec {
		c.VectorIndexTemplate, _ = comet.NewFlatIndex(dim, comet.DistanceKind(metric))
	}
	if text {
		c.TextIndexTemplate = comet.NewBM25SearchIndex()
	}
	if meta {
		c.MetadataIndexTemplate = comet.NewRoaringMetadataIndex()
	}
	return c
}

func main() {
	if len(os.Args) < 3 {
		fmt.Println("usage: storehelper hold|ids|crash ...")
		os.Exit(2)
	}
	dir := os.Args[2]
	switch os.Args[1] {
	case "hold":
		ms, _ := strconv.Atoi(os.Args[3])
		s, err := comet.OpenPersistentHybridIndex(cfg(dir, true, true, true, 2, "l2"))
		if err != nil {
			fmt.Println("OPENFAIL", err)
			os.Exit(0)
		}
		fmt.Println("OPENED")
		os.Stdout.Sync()
		time.Sleep(time.Duration(ms) * time.Millisecond)
		if err := s.Close(); err != nil {
			fmt.Println("CLOSEFAIL", err)
			os.Exit(0)
		}
		fmt.Println("CLOSED")
	case "ids":
		vec, text, meta := os.Args[3] == "1", os.Args[4] == "1", os.Args[5] == "1"
		dim, _ := strconv.Atoi(os.Args[6])
		s, err := comet.OpenPersistentHybridIndex(cfg(dir, vec, text, meta, dim, os.Args[7]))
		if err != nil {
			fmt.Println("OPENFAIL", err)
			os.Exit(0)
		}
		defer s.Close()
		out := func(name string, res []comet.HybridSearchResult, err error) {
			if err != nil {
				fmt.Println("SEARCHFAIL", name, err)
				return
			}
			ids := make([]string, len(res))
			for i, r := range res {
				ids[i] = strconv.FormatUint(uint64(r.ID), 10)
			}
			sort.Strings(ids)
			fmt.Println("IDS", name, strings.Join(ids, " "))
		}
		if vec {
			q := make([]float32, dim)
			q[0] = 1
			res, err := s.NewSearch().WithVector(q).WithK(1 << 20).Execute()
			out("vector", res, err)
		}
		if text {
			res, err := s.NewSearch().WithText("common").WithK(1 << 20).Execute()
			out("text", res, err)
		}
		if meta {
			res, err := s.NewSearch().WithMetadata(comet.Eq("kind", "doc")).WithK(1 << 20).Execute()
			out("metadata", res, err)
		}
	case "crash":
		point := os.Args[3]
		n, _ := strconv.Atoi(os.Args[4])
		ndocs, _ := strconv.Atoi(os.Args[5])
		s, err := comet.OpenPersistentHybridIndex(cfg(dir, true, true, true, 2, "l2"))
		if err != nil {
			fmt.Println("OPENFAIL", err)
			os.Exit(0)
		}
		hits := 0
		comet.VerifSetHook(func(p string, args ...any) {
			if p == point {
				hits++
				if hits == n {
					syscall.Kill(os.Getpid(), syscall.SIGKILL)
					select {}
				}
			}
		})
		base, _ := strconv.Atoi(os.Args[6])
		for i := 0; i < ndocs; i++ {
			id := uint32(base + i)
			if err := s.AddWithID(id, []float32{float32(i) + 1, 1}, fmt.Sprintf("common crash w%d", i), map[string]any{"kind": "doc", "n": i}); err != nil {
				fmt.Println("ADDFAIL", err)
			}
		}
		fmt.Println("FLUSHING")
		os.Stdout.Sync()
		err = s.Flush()
		fmt.Println("FLUSHED", err)
		s.Close()
		fmt.Println("CLOSED")
	}
}
