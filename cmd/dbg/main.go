package main

import (
	"fmt"
	"os"
	"time"

	"github.com/wizenheimer/comet"
)

func main() {
	dir, _ := os.MkdirTemp("", "dbg-*")
	defer os.RemoveAll(dir)
	cfg := comet.DefaultStorageConfig(dir)
	v, _ := comet.NewFlatIndex(3, comet.Euclidean)
	cfg.VectorIndexTemplate = v
	cfg.TextIndexTemplate = comet.NewBM25SearchIndex()
	cfg.MetadataIndexTemplate = comet.NewRoaringMetadataIndex()
	cfg.FlushThreshold = 1 << 40
	s, err := comet.OpenPersistentHybridIndex(cfg)
	if err != nil {
		panic(err)
	}
	s.AddWithID(1, []float32{1, 0, 0}, "common a", map[string]interface{}{"kind": "doc"})
	fired := false
	comet.VerifSetHook(func(point string, args ...any) {
		if point == "memtable.add.locked" && !fired {
			fired = true
			done := make(chan struct{})
			go func() { fmt.Println("flush ->", s.Flush()); close(done) }()
			select {
			case <-done:
				fmt.Println("flush finished while add paused; segments", s.VerifSegmentIDs(), "memtables", s.VerifMemtableCount())
			case <-time.After(200 * time.Millisecond):
				fmt.Println("flush blocked")
			}
		}
	})
	fmt.Println("add ->", s.AddWithID(2, []float32{0, 1, 0}, "common b", map[string]interface{}{"kind": "doc"}))
	comet.VerifSetHook(nil)
	res, err := s.NewSearch().WithText("common").WithK(10).Execute()
	fmt.Println("search:", len(res), err, "segments", s.VerifSegmentIDs(), "memtables", s.VerifMemtableCount())
	s.VerifEvictAllCaches()
	res, err = s.NewSearch().WithText("common").WithK(10).Execute()
	fmt.Println("search after evict:", len(res), err)
	s.Close()
}
